#!/bin/sh
# Build the verifier from files on disk only (vendored deps, offline).
set -e
cd "$(dirname "$0")"
export GOFLAGS=-mod=vendor GOPROXY=off GOSUMDB=off GOTOOLCHAIN=local
export PATH=/opt/veriftools/go1.26.8/bin:$PATH
mkdir -p bin evidence out
(cd vcgen && go build -o ../bin/vc .)
echo "vc built"
