#!/bin/sh
# Full self-test: every claimed property passes on the unchanged tree, and
# every patch of the must-fail corpus (mutants/<P>/*.patch, seeded/<id>/patch.diff
# with its property list in seeded/<id>/props) is caught by its property.
# The corpus runs four patches at a time (REGRESS_JOBS).
cd /verif
props=$(python3 -c "import json;print(' '.join(c['property_id'] for c in json.load(open('MANIFEST.json'))['checks']))")
rc=0
echo "== unchanged tree"
[ -n "${REGRESS_SKIP_TREE:-}" ] && props=""
for p in $props; do
  out=$(./check $p quick 2>&1); code=$?
  echo "$p exit=$code $(echo "$out" | tail -1)"
  [ $code -ne 0 ] && { echo "$out" | grep -E 'VIOLATION|TOOL-ERROR' | head -5; rc=1; }
done
echo "== must-fail corpus"
list=$(mktemp)
# REGRESS_ONLY="C01 C17": only the patches filed under / caught by these properties
want() { [ -z "${REGRESS_ONLY:-}" ] && return 0; for w in $REGRESS_ONLY; do for q in "$@"; do [ "$w" = "$q" ] && return 0; done; done; return 1; }
for d in mutants/*/; do
  p=$(basename $d)
  want $p || continue
  for f in $d*.patch; do [ -f "$f" ] && echo "$f $p" >> $list; done
done
for d in seeded/*/; do
  [ -f "$d/patch.diff" ] || continue
  if [ -f "$d/props" ]; then
    want $(cat "$d/props") || continue
    if [ -n "$(cat "$d/props" | tr -d ' \n')" ]; then echo "${d}patch.diff $(cat "$d/props" | tr '\n' ' ' | sed 's/ *$//')" >> $list; else echo "open $d (recorded as not yet caught, DESIGN §16)"; fi
  fi
done
res=$(mktemp)
cat $list | xargs -P ${REGRESS_JOBS:-4} -L 1 sh -c '
  f=$0; r=$(tools/mutcheck.sh "$f" "$@" 2>&1)
  if echo "$r" | grep -q "^CAUGHT"; then echo "ok   $f [$(echo "$r" | grep -c "^CAUGHT") caught]"; else echo "MISS $f: $(echo "$r" | head -2 | cut -c1-200)"; fi
' | tee $res
grep -q '^MISS' $res && rc=1
rm -f $list $res
exit $rc
