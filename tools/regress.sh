#!/bin/sh
# Full self-test: every claimed property passes on the unchanged tree, and
# every patch of the must-fail corpus (mutants/<P>/*.patch, seeded/<id>/patch.diff
# with its property list in seeded/<id>/props) is caught by its property.
cd /verif
props=$(python3 -c "import json;print(' '.join(c['property_id'] for c in json.load(open('MANIFEST.json'))['checks']))")
rc=0
echo "== unchanged tree"
for p in $props; do
  out=$(./check $p quick 2>&1); code=$?
  echo "$p exit=$code $(echo "$out" | tail -1)"
  [ $code -ne 0 ] && { echo "$out" | grep -E 'VIOLATION|TOOL-ERROR' | head -5; rc=1; }
done
echo "== must-fail corpus"
run() { # patch props...
  f=$1; shift
  r=$(tools/mutcheck.sh "$f" "$@" 2>&1)
  if echo "$r" | grep -q '^CAUGHT'; then echo "ok   $f [$(echo "$r" | grep -c '^CAUGHT') caught]"; else echo "MISS $f: $(echo "$r" | head -2 | cut -c1-200)"; rc=1; fi
}
for d in mutants/*/; do
  p=$(basename $d)
  for f in $d*.patch; do [ -f "$f" ] && run "$f" $p; done
done
for d in seeded/*/; do
  [ -f "$d/patch.diff" ] || continue
  if [ -f "$d/props" ]; then
    if [ -n "$(cat "$d/props" | tr -d ' \n')" ]; then run "$d/patch.diff" $(cat "$d/props"); else echo "open $d (recorded as not yet caught, DESIGN §16)"; fi
  fi
done
exit $rc
