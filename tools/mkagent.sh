#!/bin/sh
# mkagent.sh <tag> <property-id>: scratch worktree + prompt for an independent
# change-seeding sub-agent (gets the property text only; the contracts file is
# removed from its worktree).
tag=$1; pid=$2
W=/tmp/agent_$tag
rm -rf $W; mkdir -p $W/out
git -C /repo worktree add --detach $W/r HEAD >/dev/null 2>&1 || exit 1
git -C $W/r update-index --skip-worktree contracts_verif.go
rm -f $W/r/contracts_verif.go
python3 - "$W" "$pid" <<'PY'
import json,sys
W,pid=sys.argv[1],sys.argv[2]
for l in open('/verif/properties.jsonl'):
    d=json.loads(l)
    if d['id']==pid:
        txt="%s\n%s\nQuantified over: %s\nAnchors: %s"%(d['title'],d['statement'],d['quantifier']['text'],json.dumps(d['anchors']))
t=open('/verif/tools/agent_prompt.txt').read().replace('WORKDIR',W).replace('PROPERTY_TEXT',txt)
open(W+'/prompt.txt','w').write(t)
PY
echo $W/prompt.txt
