import sys,re
import os
p=os.environ.get('CF','/repo/contracts_verif.go')
s=open(p).read()
lines=s.split('\n')
targets=sys.argv[2:]
ghost=sys.argv[1]
for fn in targets:
    # find block
    try:
        i=next(k for k,l in enumerate(lines) if l.strip()=="//@ func "+fn)
    except StopIteration:
        print("no block",fn); continue
    j=i+1
    done=False
    while j<len(lines) and not lines[j].startswith("//@ func ") and not lines[j].startswith("//@ extern "):
        if lines[j].startswith("//@ modifies "):
            if ghost not in lines[j]:
                if lines[j].strip()=="//@ modifies nothing":
                    lines[j]="//@ modifies "+ghost
                else:
                    lines[j]=lines[j]+", "+ghost
            done=True
            break
        j+=1
    if not done:
        lines.insert(i+1,"//@ modifies "+ghost)
    print("ok",fn)
open(p,'w').write('\n'.join(lines))
