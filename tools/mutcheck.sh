#!/bin/sh
# usage: tools/mutcheck.sh <patch-file> <property>...
# Applies a patch to a scratch worktree of /repo (outside /repo and /verif),
# runs the given properties' quick checks against it, removes the worktree.
# Exit 0 iff every listed property reported a VIOLATION (the mutant is caught).
# The second solver round is off here unless VERIF_RETRY is set by the caller:
# an undischarged obligation is the expected outcome, and the extra round only
# makes the corpus slower (set VERIF_RETRY=1 to run a patch exactly as ./check
# would).
set -u
PATCH=$(readlink -f "$1"); shift
D=$(mktemp -d /tmp/mut.XXXXXX)
git -C /repo worktree add -q "$D/r" HEAD || exit 2
cp "${VERIF_CONTRACTS:-/repo/contracts_verif.go}" "$D/r/contracts_verif.go"
if ! git -C "$D/r" apply "$PATCH" 2>"$D/apply.err"; then
  echo "SKIP: patch does not apply: $(head -1 "$D/apply.err")"
  git -C /repo worktree remove --force "$D/r"; rm -rf "$D"; exit 3
fi
rc=0
for P in "$@"; do
  if [ "$P" = C27 ]; then
    out=$(VERIF_REPO="$D/r" VERIF_OUT="$D/out" VERIF_EVIDENCE="$D/ev" ${VC:-/verif/bin/vc} silent 2>&1)
  else
    out=$(VERIF_TIMEOUT="${VERIF_TIMEOUT:-6}" VERIF_RETRY="${VERIF_RETRY:-0}" VERIF_REPO="$D/r" VERIF_OUT="$D/out" VERIF_EVIDENCE="$D/ev" ${VC:-/verif/bin/vc} check -property "$P" -tier quick 2>&1)
  fi
  if echo "$out" | grep -q '^VIOLATION'; then
    echo "CAUGHT $P: $(echo "$out" | grep '^VIOLATION' | head -3 | sed 's/replay=[^ ]* //')"
  elif echo "$out" | grep -q 'TOOL-ERROR'; then
    echo "TOOLERR $P: $(echo "$out" | grep TOOL-ERROR | head -1)"; rc=1
  else
    echo "MISSED $P: $(echo "$out" | tail -1)"; rc=1
  fi
done
git -C /repo worktree remove --force "$D/r"; rm -rf "$D"
exit $rc
