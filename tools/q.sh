#!/bin/sh
# tools/q.sh <smt2> [timeout]: run a query on the three solvers without get-value noise
f=$1; t=${2:-10}
grep -v '^(get-value' "$f" | grep -v '^(get-model' > /tmp/q_$$.smt2
for s in "z3-new -T:$t" "z3 -T:$t" "cvc5 --tlimit=${t}000"; do
  /usr/bin/time -f "%es" $s /tmp/q_$$.smt2 2>&1 | grep -v WARNING | head -2 | tr '\n' ' '; echo " [$s]"
done
rm -f /tmp/q_$$.smt2
