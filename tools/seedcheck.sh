#!/bin/sh
# usage: tools/seedcheck.sh <dir-with-patch.diff+demo_test.go+notes.md> <seed-id> <property>...
# Confirms a seeded property-breaking change independently, in a scratch
# worktree of /repo outside /repo and /verif:
#   1. the patch applies and the package builds,
#   2. the existing test suite passes with the change,
#   3. the demonstration test fails with the change and passes without it,
# then runs the listed properties' quick checks against the changed tree and
# records everything under /verif/seeded/<seed-id>/.
set -u
SRC=$(readlink -f "$1"); ID="$2"; shift 2
export GOFLAGS=-mod=mod GOPROXY=off GOSUMDB=off GOTOOLCHAIN=local PATH=/opt/veriftools/go1.26.8/bin:$PATH
D=$(mktemp -d /tmp/seed.XXXXXX)
export GOCACHE="$D/gocache"
git -C /repo worktree add -q --detach "$D/r" HEAD || exit 2
cleanup() { git -C /repo worktree remove --force "$D/r" 2>/dev/null; rm -rf "$D"; }
LOG="$D/log.txt"; : > "$LOG"
say() { echo "$*" | tee -a "$LOG"; }
if ! git -C "$D/r" apply "$SRC/patch.diff" 2>>"$LOG"; then say "RESULT: patch does not apply"; mkdir -p /verif/seeded/$ID; cp "$LOG" /verif/seeded/$ID/confirm.log; cleanup; exit 3; fi
( cd "$D/r" && go build ./... ) >>"$LOG" 2>&1 || { say "RESULT: does not build"; cleanup; exit 3; }
say "== suite with change"
if ( cd "$D/r" && go test -vet=off -count=1 -timeout 25m ./... ) >>"$LOG" 2>&1; then say "suite: PASS with change"; SUITE=pass; else say "suite: FAIL with change"; SUITE=fail; fi
cp "$SRC/demo_test.go" "$D/r/zz_seeded_demo_test.go"
say "== demo with change"
if ( cd "$D/r" && go test -vet=off -count=1 -timeout 10m -run 'TestSeeded' . ) >>"$LOG" 2>&1; then say "demo: PASS with change (bad)"; DEMO_WITH=pass; else say "demo: FAIL with change (expected)"; DEMO_WITH=fail; fi
git -C "$D/r" apply -R "$SRC/patch.diff"
say "== demo without change"
if ( cd "$D/r" && go test -vet=off -count=1 -timeout 10m -run 'TestSeeded' . ) >>"$LOG" 2>&1; then say "demo: PASS without change (expected)"; DEMO_WITHOUT=pass; else say "demo: FAIL without change (bad)"; DEMO_WITHOUT=fail; fi
rm -f "$D/r/zz_seeded_demo_test.go"
git -C "$D/r" apply "$SRC/patch.diff"
cp /repo/contracts_verif.go "$D/r/contracts_verif.go"
CAUGHT=""; MISSED=""
for P in "$@"; do
  if [ "$P" = C27 ]; then
    out=$(VERIF_REPO="$D/r" VERIF_OUT="$D/out" VERIF_EVIDENCE="$D/ev" /verif/bin/vc silent 2>&1)
  else
    out=$(VERIF_REPO="$D/r" VERIF_OUT="$D/out" VERIF_EVIDENCE="$D/ev" /verif/bin/vc check -property "$P" -tier quick 2>&1)
  fi
  if echo "$out" | grep -q '^VIOLATION'; then
    say "check $P: CAUGHT $(echo "$out" | grep '^VIOLATION' | sed 's/replay=[^ ]* //' | head -4 | tr '\n' '|')"; CAUGHT="$CAUGHT $P"
  elif echo "$out" | grep -q 'TOOL-ERROR'; then
    say "check $P: TOOL-ERROR $(echo "$out" | grep TOOL-ERROR | head -1)"; MISSED="$MISSED $P"
  else
    say "check $P: MISSED ($(echo "$out" | tail -1))"; MISSED="$MISSED $P"
  fi
done
mkdir -p /verif/seeded/$ID
cp "$SRC/patch.diff" "$SRC/demo_test.go" /verif/seeded/$ID/
[ -f "$SRC/notes.md" ] && cp "$SRC/notes.md" /verif/seeded/$ID/agent_notes.md
cp "$LOG" /verif/seeded/$ID/confirm.log
cat > /verif/seeded/$ID/confirm.json <<EOF
{"suite_with_change": "$SUITE", "demo_with_change": "$DEMO_WITH", "demo_without_change": "$DEMO_WITHOUT", "checks_caught": "$(echo $CAUGHT)", "checks_missed": "$(echo $MISSED)", "repo_head": "$(git -C /repo rev-parse --short HEAD)"}
EOF
say "RESULT: suite=$SUITE demo_with=$DEMO_WITH demo_without=$DEMO_WITHOUT caught=[$CAUGHT ] missed=[$MISSED ]"
cleanup
