#!/usr/bin/env python3
"""thorough tier, second half: run the must-fail corpus of one property
(mutants/<P>/*.patch and every seeded/<id>/patch.diff whose props list names P)
against the property's check, four at a time, each in a scratch worktree of
/repo under $TMPDIR that is removed afterwards, and record the outcome under
coverage.must_fail_corpus of the evidence file the check has just written.
A patch that is not caught is a weakness of the contracts, not a violation of
the property on the current tree: it is recorded, and does not change the
exit status."""
import glob, json, os, subprocess, sys
from concurrent.futures import ThreadPoolExecutor
P = sys.argv[1]
os.chdir('/verif')
patches = sorted(glob.glob(f'mutants/{P}/*.patch'))
for d in sorted(glob.glob('seeded/*/')):
    pf = os.path.join(d, 'props')
    if os.path.exists(pf) and P in open(pf).read().split() and os.path.exists(d + 'patch.diff'):
        patches.append(d + 'patch.diff')
def run(p):
    r = subprocess.run(['tools/mutcheck.sh', p, P], capture_output=True, text=True)
    out = r.stdout.strip().splitlines()
    first = out[0] if out else ''
    status = 'caught' if first.startswith('CAUGHT') else ('skipped' if first.startswith('SKIP') else 'missed')
    obl = ''
    if 'obligation=' in first:
        obl = first.split('obligation=')[1].split(' ')[0]
    return {'patch': p, 'status': status, 'first_failed_obligation': obl}
with ThreadPoolExecutor(max_workers=4) as ex:
    res = list(ex.map(run, patches))
ev = f"{os.environ.get('VERIF_EVIDENCE', '/verif/evidence')}/{P}.json"
try:
    e = json.load(open(ev))
    e.setdefault('coverage', {})['must_fail_corpus'] = {
        'patches': len(res), 'caught': sum(r['status'] == 'caught' for r in res),
        'missed': [r['patch'] for r in res if r['status'] == 'missed'],
        'skipped': [r['patch'] for r in res if r['status'] == 'skipped'],
        'results': res,
    }
    json.dump(e, open(ev, 'w'), indent=1)
except Exception as x:
    print('thorough_corpus: could not update evidence:', x)
print(f"must-fail corpus for {P}: {sum(r['status']=='caught' for r in res)}/{len(res)} caught" + (f", missed: {[r['patch'] for r in res if r['status']=='missed']}" if any(r['status']=='missed' for r in res) else ''))
