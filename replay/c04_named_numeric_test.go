package bloomsearch

import (
	"testing"
	"time"
)

type replayID uint64
type replayScore float64
type replaySmall int32

// Replay of the counterexample to toInt64/ensures#1 and
// ConvertToMinMaxInt64/ensures#2: a dynamic type that is none of the predeclared
// numeric types but has a numeric kind (the solver's model: type id 27, kind
// int32, value -1).
func TestReplayNamedNumericTypes(t *testing.T) {
	cases := []struct {
		name     string
		value    any
		min, max int64
	}{
		{"named int32 -1 (solver model)", replaySmall(-1), -1, -1},
		{"time.Duration", 5 * time.Second, int64(5 * time.Second), int64(5 * time.Second)},
		{"named uint64 above MaxInt64", replayID(1<<63 + 5), 1<<63 - 1, 1<<63 - 1},
		{"named float64", replayScore(2.5), 2, 3},
		{"uintptr", uintptr(7), 7, 7},
	}
	for _, c := range cases {
		mn, mx, ok := ConvertToMinMaxInt64(c.value)
		if !ok || mn != c.min || mx != c.max {
			t.Errorf("%s: ConvertToMinMaxInt64 = (%d, %d, %v), want (%d, %d, true)", c.name, mn, mx, ok, c.min, c.max)
		}
	}
}
