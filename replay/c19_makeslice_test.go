package bloomsearch

import (
	"bytes"
	"testing"
)

func TestReplayMakeslice(t *testing.T) {
	for name, f := range map[string]func(){
		"ReadDataBlockRowData": func() {
			ReadDataBlockRowData(bytes.NewReader(make([]byte, 16)), &DataBlockMetadata{RowDataOffset: 0, RowDataSize: 1 << 62})
		},
		"readPooledBlockRowData": func() {
			readPooledBlockRowData(bytes.NewReader(make([]byte, 16)), &DataBlockMetadata{RowDataOffset: 0, RowDataSize: 1 << 62})
		},
		"ReadDataBlockBloomFilters": func() {
			ReadDataBlockBloomFilters(bytes.NewReader(make([]byte, 16)), DataBlockMetadata{BloomFilterOffset: 0, BloomFilterSize: 1 << 62})
		},
	} {
		func() {
			defer func() {
				if r := recover(); r != nil {
					t.Errorf("%s panicked: %v", name, r)
				}
			}()
			f()
		}()
	}
}
