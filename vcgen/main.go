package main

import (
	"fmt"
	"os"
)

func main() {
	// go/packages resolves "go" through this process's PATH.
	os.Setenv("PATH", "/opt/veriftools/go1.26.8/bin:"+os.Getenv("PATH"))
	os.Setenv("GOFLAGS", "-mod=mod")
	os.Setenv("GOPROXY", "off")
	os.Setenv("GOSUMDB", "off")
	os.Setenv("GOTOOLCHAIN", "local")
	if len(os.Args) < 2 {
		fmt.Fprintln(os.Stderr, "usage: vc <dump|check|replay|loops|silent> ...")
		os.Exit(2)
	}
	switch os.Args[1] {
	case "dump":
		cmdDump(os.Args[2:])
	case "check":
		cmdCheck(os.Args[2:])
	case "replay":
		cmdReplay(os.Args[2:])
	case "mods":
		cmdMods(os.Args[2:])
	case "loops":
		cmdLoops(os.Args[2:])
	case "silent":
		cmdSilent(os.Args[2:])
	default:
		fmt.Fprintln(os.Stderr, "unknown command")
		os.Exit(2)
	}
}
