package main

import (
	"fmt"
	"go/token"
	"go/types"
	"strings"

	"golang.org/x/tools/go/ssa"
)

func (e *Enc) safetyOn() bool { return e.con != nil && e.con.Safety }

func (e *Enc) encodeInstr(fr *Frame, ins ssa.Instruction, st *State, reach Term) *State {
	e.exact++
	switch t := ins.(type) {
	case *ssa.DebugRef:
		e.exact--
		return st
	case *ssa.Alloc:
		ref := e.newRef(st)
		elem := t.Type().(*types.Pointer).Elem()
		ptr := "(mkptr " + ref + " 0)"
		fr.vals[t] = Val{T: ptr, Typ: t.Type()}
		fr.locals = append(fr.locals, localCell{t, ref, elem})
		e.storeCell(st, ptr, elem, e.B.zeroOf(elem))
		stateSorts[e.B.heapName(elem)] = e.B.heapSort(elem)
		return st
	case *ssa.FieldAddr:
		base := e.val(fr, t.X)
		stT := t.X.Type().Underlying().(*types.Pointer).Elem()
		if e.safetyOn() && base.P == nil {
			e.addObl(fr, "nil-deref", implies(reach, "(not (= "+base.T+" nilptr))"), "field address of "+t.X.Name(), t.Pos(), nil)
		}
		bp := e.placeOf(base, stT)
		ft := stT.Underlying().(*types.Struct).Field(t.Field).Type()
		fr.vals[t] = Val{P: &Place{Kind: PField, Base: bp, Field: t.Field, Typ: ft}, Typ: t.Type()}
		return st
	case *ssa.Field:
		x := e.val(fr, t.X)
		e.bind(fr, t, e.B.structField(t.X.Type(), x.T, t.Field))
		return st
	case *ssa.IndexAddr:
		x := e.val(fr, t.X)
		idx := e.val(fr, t.Index).T
		switch xt := t.X.Type().Underlying().(type) {
		case *types.Slice:
			if e.safetyOn() {
				e.addObl(fr, "index-bounds", implies(reach, fmt.Sprintf("(and (<= 0 %s) (< %s (slen %s)))", idx, idx, x.T)), "index "+t.X.Name()+"["+t.Index.Name()+"]", t.Pos(), nil)
			} else {
				e.B.assume(implies(reach, fmt.Sprintf("(and (<= 0 %s) (< %s (slen %s)))", idx, idx, x.T)))
			}
			ptr := e.B.define(fr.vname(t), "Ptr", fmt.Sprintf("(mkptr (sarr %s) (+ (soff %s) %s))", x.T, x.T, idx))
			fr.vals[t] = Val{T: ptr, Typ: t.Type()}
		case *types.Pointer: // pointer to array
			at := xt.Elem().Underlying().(*types.Array)
			if e.safetyOn() {
				e.addObl(fr, "index-bounds", implies(reach, fmt.Sprintf("(and (<= 0 %s) (< %s %d))", idx, idx, at.Len())), "array index", t.Pos(), nil)
			}
			bp := e.placeOf(x, xt.Elem())
			fr.vals[t] = Val{P: &Place{Kind: PIndex, Base: bp, Idx: idx, Typ: at.Elem()}, Typ: t.Type()}
		default:
			fail("IndexAddr on %s", t.X.Type())
		}
		return st
	case *ssa.Index:
		x := e.val(fr, t.X)
		idx := e.val(fr, t.Index).T
		switch t.X.Type().Underlying().(type) {
		case *types.Array:
			e.bind(fr, t, fmt.Sprintf("(select %s %s)", x.T, idx))
		case *types.Basic: // string index
			e.B.declTop("strbyte", "(declare-fun strbyte (Str Int) Int)")
			if e.safetyOn() {
				e.addObl(fr, "index-bounds", implies(reach, fmt.Sprintf("(and (<= 0 %s) (< %s (strlen %s)))", idx, idx, x.T)), "string index", t.Pos(), nil)
			}
			e.bind(fr, t, fmt.Sprintf("(strbyte %s %s)", x.T, idx))
			e.B.assume(fmt.Sprintf("(and (<= 0 %s) (<= %s 255))", fr.vals[t].T, fr.vals[t].T))
		default:
			fail("Index on %s", t.X.Type())
		}
		return st
	case *ssa.UnOp:
		return e.encodeUnOp(fr, t, st, reach)
	case *ssa.BinOp:
		e.encodeBinOp(fr, t, reach)
		return st
	case *ssa.Store:
		addr := e.val(fr, t.Addr)
		v := e.val(fr, t.Val)
		elem := t.Addr.Type().Underlying().(*types.Pointer).Elem()
		if e.safetyOn() && addr.P == nil {
			e.addObl(fr, "nil-deref", implies(reach, "(not (= "+addr.T+" nilptr))"), "store through "+t.Addr.Name(), t.Pos(), nil)
		}
		if v.T == "" {
			fail("store of interior pointer or tuple (%s) in %s", t.Val.Name(), fr.fn.Name())
		}
		ns := st
		// conditional execution is handled by state merging at joins; stores in a
		// block only take effect on paths through the block.
		e.setPlace(ns, e.placeOf(addr, elem), v.T)
		stateSorts[e.rootHeap(e.placeOf(addr, elem))] = e.heapSortOfPlace(e.placeOf(addr, elem))
		return ns
	case *ssa.Convert:
		e.encodeConvert(fr, t, reach, st)
		return st
	case *ssa.ChangeType:
		x := e.val(fr, t.X)
		fr.vals[t] = Val{T: x.T, P: x.P, Fn: x.Fn, Binds: x.Binds, Typ: t.Type()}
		return st
	case *ssa.ChangeInterface:
		x := e.val(fr, t.X)
		fr.vals[t] = Val{T: x.T, Typ: t.Type()}
		return st
	case *ssa.MakeInterface:
		x := e.val(fr, t.X)
		id := e.B.typeID(t.X.Type())
		var payload Term
		srt := e.B.sortOf(t.X.Type())
		switch {
		case srt == "Int":
			payload = x.T
		case x.T != "":
			box := "box." + sanitize(srt)
			e.B.declTop(box, fmt.Sprintf("(declare-fun %s (Int) %s)", box, srt))
			b := e.B.declConst("boxid", "Int")
			e.B.assume(fmt.Sprintf("(= (%s %s) %s)", box, b, x.T))
			payload = b
		default:
			payload = e.B.declConst("boxid", "Int")
		}
		e.bind(fr, t, fmt.Sprintf("(mkiface %d %s)", id, payload))
		return st
	case *ssa.TypeAssert:
		e.encodeTypeAssert(fr, t, st, reach)
		return st
	case *ssa.Extract:
		tup := e.val(fr, t.Tuple)
		if t.Index >= len(tup.Tup) {
			fail("extract %d from tuple of %d (%s)", t.Index, len(tup.Tup), t.Tuple.Name())
		}
		v := tup.Tup[t.Index]
		v.Typ = t.Type()
		fr.vals[t] = v
		return st
	case *ssa.Slice:
		e.encodeSlice(fr, t, st, reach)
		return st
	case *ssa.MakeSlice:
		ln := e.val(fr, t.Len).T
		cp := e.val(fr, t.Cap).T
		elem := t.Type().Underlying().(*types.Slice).Elem()
		if e.safetyOn() {
			e.addObl(fr, "make-size", implies(reach, fmt.Sprintf("(and (<= 0 %s) (<= %s %s) (<= %s %s))", ln, ln, cp, cp, e.makeLimit(fr, st))), "make([]T, "+t.Len.Name()+")", t.Pos(), nil)
		}
		ref := e.newRef(st)
		h := e.heapOf(st, elem)
		stateSorts[e.B.heapName(elem)] = e.B.heapSort(elem)
		zero := e.B.constArray(elem)
		e.set(st, e.B.heapName(elem), e.B.heapSort(elem), fmt.Sprintf("(store %s %s %s)", h, ref, zero))
		e.bind(fr, t, fmt.Sprintf("(mkslice %s 0 %s %s)", ref, ln, cp))
		return st
	case *ssa.MakeMap:
		ref := e.newRef(st)
		mt := t.Type().Underlying().(*types.Map)
		e.mapInit(st, mt, ref)
		e.bind(fr, t, ref)
		return st
	case *ssa.MakeChan:
		ref := e.newRef(st)
		e.bind(fr, t, ref)
		e.B.declTop("chcap", "(declare-fun chcap (Int) Int)")
		e.B.assume(fmt.Sprintf("(= (chcap %s) %s)", ref, e.val(fr, t.Size).T))
		return st
	case *ssa.MakeClosure:
		fn := t.Fn.(*ssa.Function)
		var binds []Val
		for _, b := range t.Bindings {
			binds = append(binds, e.val(fr, b))
		}
		ref := e.newRef(st)
		fr.vals[t] = Val{T: ref, Fn: fn, Binds: binds, Typ: t.Type()}
		return st
	case *ssa.Lookup:
		return e.encodeLookup(fr, t, st, reach)
	case *ssa.MapUpdate:
		return e.encodeMapUpdate(fr, t, st, reach)
	case *ssa.Range:
		return e.encodeRange(fr, t, st)
	case *ssa.Next:
		return e.encodeNext(fr, t, st, reach)
	case *ssa.Call:
		return e.encodeCall(fr, t, t.Common(), st, reach)
	case *ssa.Defer:
		key := fmt.Sprintf("defer.%d.%d.%d", fr.id, t.Block().Index, indexOf(t))
		stateSorts[key] = "Bool"
		st.m[key] = "true"
		return st
	case *ssa.RunDefers:
		return e.runDefers(fr, st, reach)
	case *ssa.Go:
		e.note("go statement in %s: spawned goroutine not modelled", fr.fn.Name())
		// the spawn itself is a counted event when the contracts declare
		// "ghostvar gos int" (how many goroutines a function starts)
		if e.CS.Ghosts["gos"] != nil {
			key, srt, _ := e.ghostKey("gos")
			cur := e.get(st, key, srt)
			e.set(st, key, srt, ite(reach, "(+ "+cur+" 1)", cur))
		}
		return st
	case *ssa.Send:
		return e.encodeSend(fr, e.val(fr, t.Chan), e.val(fr, t.X), t.X.Type(), st, reach, "true")
	case *ssa.Select:
		return e.encodeSelect(fr, t, st, reach)
	}
	fail("unsupported instruction %T in %s: %s", ins, fr.fn.Name(), ins)
	return st
}

func indexOf(ins ssa.Instruction) int {
	for i, x := range ins.Block().Instrs {
		if x == ins {
			return i
		}
	}
	return -1
}

func (e *Enc) heapSortOfPlace(p *Place) string {
	for p.Kind != PDeref {
		p = p.Base
	}
	return e.B.heapSort(p.Typ)
}

// makeLimit is the allocation bound used by make-size obligations: the ghost
// file size when the contract declares one, else the int range.
func (e *Enc) makeLimit(fr *Frame, st *State) Term {
	if e.allocLimit != "" {
		return e.allocLimit
	}
	return "9223372036854775807"
}

func (e *Enc) encodeUnOp(fr *Frame, t *ssa.UnOp, st *State, reach Term) *State {
	x := e.val(fr, t.X)
	switch t.Op {
	case token.MUL: // load
		elem := t.X.Type().Underlying().(*types.Pointer).Elem()
		if e.safetyOn() && x.P == nil {
			e.addObl(fr, "nil-deref", implies(reach, "(not (= "+x.T+" nilptr))"), "load through "+t.X.Name(), t.Pos(), nil)
		}
		v := e.getPlace(st, e.placeOf(x, elem))
		e.bind(fr, t, v)
		e.assumeWF(fr.vals[t].T, t.Type(), st)
		return st
	case token.NOT:
		e.bind(fr, t, not(x.T))
	case token.SUB:
		if ii, ok := intInfoOf(t.Type()); ok {
			e.bind(fr, t, ii.wrap1("(- "+x.T+")"))
		} else {
			e.bind(fr, t, fmt.Sprintf("(ite ((_ is fin) %s) (fin (- (fval %s))) (ite ((_ is pinf) %s) ninf (ite ((_ is ninf) %s) pinf fnan)))", x.T, x.T, x.T, x.T))
		}
	case token.ARROW: // channel receive
		e.abstracted++
		elem := t.X.Type().Underlying().(*types.Chan).Elem()
		if t.CommaOk {
			v := e.freshOf("recv", elem, st)
			ok := e.B.declConst("recvok", "Bool")
			fr.vals[t] = Val{Tup: []Val{{T: v, Typ: elem}, {T: ok, Typ: types.Typ[types.Bool]}}, Typ: t.Type()}
		} else {
			fr.vals[t] = Val{T: e.freshOf("recv", elem, st), Typ: t.Type()}
		}
		e.ghostBump(st, "ghost.recvs", x.T, "true")
	case token.XOR:
		ii, _ := intInfoOf(t.Type())
		if ii.signed {
			e.bind(fr, t, "(- (- "+x.T+") 1)")
		} else {
			e.bind(fr, t, "(- "+intLit(ii.hi())+" "+x.T+")")
		}
	default:
		fail("unsupported unary op %s", t.Op)
	}
	return st
}

func (e *Enc) strCmp(op token.Token, a, b Term) Term {
	e.B.needStrOrder = true
	switch op {
	case token.LSS:
		return "(strlt " + a + " " + b + ")"
	case token.GTR:
		return "(strlt " + b + " " + a + ")"
	case token.LEQ:
		return "(not (strlt " + b + " " + a + "))"
	case token.GEQ:
		return "(not (strlt " + a + " " + b + "))"
	}
	panic("strCmp")
}

func (e *Enc) encodeBinOp(fr *Frame, t *ssa.BinOp, reach Term) {
	x, y := e.val(fr, t.X), e.val(fr, t.Y)
	a, b := x.T, y.T
	xt := t.X.Type()
	switch t.Op {
	case token.EQL, token.NEQ:
		var eq Term
		if _, isSlice := xt.Underlying().(*types.Slice); isSlice {
			// only comparison with nil is legal
			other := a
			if a == "nilslice" || a == "(mkslice 0 0 0 0)" {
				other = b
			}
			eq = "(= (sarr " + other + ") 0)"
		} else if _, isFlt := xt.Underlying().(*types.Basic); isFlt && e.B.sortOf(xt) == "Flt" {
			eq = "(and (not ((_ is fnan) " + a + ")) (= " + a + " " + b + "))"
		} else if x.P != nil || y.P != nil {
			// interior pointers are never nil
			if a == "nilptr" || b == "nilptr" || a == "(mkptr 0 0)" || b == "(mkptr 0 0)" {
				eq = "false"
			} else {
				fail("comparison of interior pointers")
			}
		} else {
			eq = "(= " + a + " " + b + ")"
		}
		if t.Op == token.NEQ {
			eq = not(eq)
		}
		e.bind(fr, t, eq)
		return
	case token.LSS, token.LEQ, token.GTR, token.GEQ:
		srt := e.B.sortOf(xt)
		switch srt {
		case "Str":
			e.bind(fr, t, e.strCmp(t.Op, a, b))
		case "Flt":
			switch t.Op {
			case token.LSS:
				e.bind(fr, t, "(fltlt "+a+" "+b+")")
			case token.LEQ:
				e.bind(fr, t, "(fltle "+a+" "+b+")")
			case token.GTR:
				e.bind(fr, t, "(fltlt "+b+" "+a+")")
			case token.GEQ:
				e.bind(fr, t, "(fltle "+b+" "+a+")")
			}
		default:
			op := map[token.Token]string{token.LSS: "<", token.LEQ: "<=", token.GTR: ">", token.GEQ: ">="}[t.Op]
			e.bind(fr, t, "("+op+" "+a+" "+b+")")
		}
		return
	}
	// arithmetic
	if e.B.sortOf(t.Type()) == "Str" && t.Op == token.ADD {
		e.B.declTop("strcat", "(declare-fun strcat (Str Str) Str)")
		e.bind(fr, t, "(strcat "+a+" "+b+")")
		r := fr.vals[t].T
		e.B.assume(fmt.Sprintf("(= (strlen %s) (+ (strlen %s) (strlen %s)))", r, a, b))
		return
	}
	ii, ok := intInfoOf(t.Type())
	if !ok {
		if e.B.sortOf(t.Type()) == "Flt" {
			// float arithmetic is not modelled: result unconstrained
			e.abstracted++
			fr.vals[t] = Val{T: e.B.declConst("fltop", "Flt"), Typ: t.Type()}
			return
		}
		fail("binop %s on %s", t.Op, t.Type())
	}
	switch t.Op {
	case token.ADD:
		e.bind(fr, t, ii.wrap1("(+ "+a+" "+b+")"))
	case token.SUB:
		e.bind(fr, t, ii.wrap1("(- "+a+" "+b+")"))
	case token.MUL:
		e.bind(fr, t, ii.wrapAny("(* "+a+" "+b+")"))
	case token.QUO:
		if e.safetyOn() {
			e.addObl(fr, "div-zero", implies(reach, "(not (= "+b+" 0))"), "division", t.Pos(), nil)
		}
		// Go truncates toward zero
		q := fmt.Sprintf("(ite (>= %s 0) (div %s %s) (- (div (- %s) %s)))", a, a, b, a, b)
		if !ii.signed {
			q = "(div " + a + " " + b + ")"
		}
		e.bind(fr, t, ii.wrapAny(q))
	case token.REM:
		if e.safetyOn() {
			e.addObl(fr, "div-zero", implies(reach, "(not (= "+b+" 0))"), "remainder", t.Pos(), nil)
		}
		r := fmt.Sprintf("(ite (>= %s 0) (mod %s %s) (- (mod (- %s) %s)))", a, a, b, a, b)
		e.bind(fr, t, r)
	case token.SHL:
		if c, ok := t.Y.(*ssa.Const); ok {
			k := c.Int64()
			e.bind(fr, t, ii.wrapAny(fmt.Sprintf("(* %s %s)", a, intLit(new(big_Int).Lsh(bigOne, uint(k))))))
		} else {
			e.B.declTop("pow2", "(declare-fun pow2 (Int) Int)\n(assert (= (pow2 0) 1))\n(assert (forall ((n Int)) (! (=> (>= n 0) (= (pow2 (+ n 1)) (* 2 (pow2 n)))) :pattern ((pow2 (+ n 1))))))\n(assert (forall ((n Int)) (! (=> (>= n 0) (>= (pow2 n) 1)) :pattern ((pow2 n)))))")
			e.bind(fr, t, ii.wrapAny(fmt.Sprintf("(* %s (pow2 %s))", a, b)))
		}
	case token.SHR:
		if c, ok := t.Y.(*ssa.Const); ok {
			k := c.Int64()
			e.bind(fr, t, fmt.Sprintf("(div %s %s)", a, intLit(new(big_Int).Lsh(bigOne, uint(k)))))
		} else {
			fail("shift right by non-constant")
		}
	case token.AND, token.OR, token.XOR, token.AND_NOT:
		// bit operations: exact for 8-bit operands with a constant mask via
		// per-bit decomposition; otherwise abstracted (range only).
		if c, ok := t.Y.(*ssa.Const); ok && ii.bits == 8 {
			e.bind(fr, t, e.bitop8(t.Op, a, uint8(c.Uint64())))
			return
		}
		e.abstracted++
		v := e.B.declConst("bitop", "Int")
		e.B.assume(ii.inRange(v))
		fr.vals[t] = Val{T: v, Typ: t.Type()}
		e.note("bit operation %s in %s abstracted", t.Op, fr.fn.Name())
	default:
		fail("unsupported binary op %s", t.Op)
	}
}

// bitop8 encodes x OP mask for a byte x and a constant mask exactly, by
// splitting x into bits with div/mod.
func (e *Enc) bitop8(op token.Token, x Term, mask uint8) Term {
	var parts []string
	for bit := 0; bit < 8; bit++ {
		w := 1 << bit
		xb := fmt.Sprintf("(mod (div %s %d) 2)", x, w)
		m := (mask >> bit) & 1
		var rb Term
		switch op {
		case token.AND:
			if m == 1 {
				rb = xb
			} else {
				rb = "0"
			}
		case token.OR:
			if m == 1 {
				rb = "1"
			} else {
				rb = xb
			}
		case token.XOR:
			if m == 1 {
				rb = "(- 1 " + xb + ")"
			} else {
				rb = xb
			}
		case token.AND_NOT:
			if m == 1 {
				rb = "0"
			} else {
				rb = xb
			}
		}
		if rb != "0" {
			parts = append(parts, fmt.Sprintf("(* %d %s)", w, rb))
		}
	}
	if len(parts) == 0 {
		return "0"
	}
	if len(parts) == 1 {
		return parts[0]
	}
	return "(+ " + strings.Join(parts, " ") + ")"
}

func (e *Enc) encodeConvert(fr *Frame, t *ssa.Convert, reach Term, st *State) {
	x := e.val(fr, t.X)
	from, to := t.X.Type(), t.Type()
	fi, fok := intInfoOf(from)
	ti, tok := intInfoOf(to)
	fs, ts := e.B.sortOf(from), e.B.sortOf(to)
	switch {
	case fok && tok:
		// widening within range needs no wrap
		if ti.lo().Cmp(fi.lo()) <= 0 && ti.hi().Cmp(fi.hi()) >= 0 {
			fr.vals[t] = Val{T: x.T, Typ: to}
			return
		}
		e.bind(fr, t, ti.wrapAny(x.T))
	case fok && ts == "Flt":
		// exact only within ±2^53; constants are folded by the compiler
		e.bind(fr, t, "(fin (to_real "+x.T+"))")
		e.note("int->float conversion in %s treated as exact", fr.fn.Name())
	case fs == "Flt" && tok:
		// int64(f): defined only for finite in-range values
		if e.safetyOn() {
			e.addObl(fr, "float-to-int-range", implies(reach, fmt.Sprintf("(and ((_ is fin) %s) (< (fval %s) %s.0) (> (fval %s) (- %s.0)))", x.T, x.T, new(big_Int).Add(ti.hi(), bigOne).String(), x.T, new(big_Int).Add(new(big_Int).Neg(ti.lo()), bigOne).String())), "float to integer conversion", t.Pos(), nil)
		}
		tr := fmt.Sprintf("(ite (>= (fval %s) 0.0) (to_int (fval %s)) (- (to_int (- (fval %s)))))", x.T, x.T, x.T)
		e.bind(fr, t, tr)
	case fs == "Flt" && ts == "Flt":
		fr.vals[t] = Val{T: x.T, Typ: to} // float32 -> float64 exact; narrowing not used
	case fs == "Str" && ts == "Slice":
		// []byte(s): fresh array with the string's bytes (content abstract)
		e.abstracted++
		v := e.B.declConst("bytesof", "Slice")
		e.B.assume(fmt.Sprintf("(and (< (sarr %s) 0) (= (soff %s) 0) (= (slen %s) (strlen %s)) (>= (scap %s) (slen %s)))", v, v, v, x.T, v, v))
		fr.vals[t] = Val{T: v, Typ: to}
	case fs == "Slice" && ts == "Str":
		e.abstracted++
		// string(b): a function of b's backing array content, offset and length (two
		// conversions of the same slice in the same state are the same string; no
		// extensionality across different arrays is claimed)
		e.B.declTop("strof", "(declare-fun strof ((Array Int Int) Int Int) Str)")
		if sl, ok := from.Underlying().(*types.Slice); ok && e.B.sortOf(sl.Elem()) == "Int" && st != nil {
			h := e.heapOf(st, sl.Elem())
			v := e.B.define("strofbytes", "Str", fmt.Sprintf("(strof (select %s (sarr %s)) (soff %s) (slen %s))", h, x.T, x.T, x.T))
			e.B.assume(fmt.Sprintf("(= (strlen %s) (slen %s))", v, x.T))
			fr.vals[t] = Val{T: v, Typ: to}
			break
		}
		v := e.B.declConst("strofbytes", "Str")
		e.B.assume(fmt.Sprintf("(= (strlen %s) (slen %s))", v, x.T))
		fr.vals[t] = Val{T: v, Typ: to}
	case fs == ts:
		fr.vals[t] = Val{T: x.T, Typ: to}
	default:
		fail("unsupported conversion %s -> %s", from, to)
	}
}

func (e *Enc) encodeTypeAssert(fr *Frame, t *ssa.TypeAssert, st *State, reach Term) {
	x := e.val(fr, t.X)
	var ok Term
	var v Val
	if _, isIface := t.AssertedType.Underlying().(*types.Interface); isIface {
		// interface-to-interface: dynamic type implements it or not; unknown
		e.B.declTop("implements", "(declare-fun implements (Int Int) Bool)")
		id := e.B.typeID(t.AssertedType)
		ok = fmt.Sprintf("(and (not (= (ity %s) 0)) (implements (ity %s) %d))", x.T, x.T, id)
		v = Val{T: x.T, Typ: t.AssertedType}
	} else {
		id := e.B.typeID(t.AssertedType)
		ok = fmt.Sprintf("(= (ity %s) %d)", x.T, id)
		srt := e.B.sortOf(t.AssertedType)
		switch srt {
		case "Int":
			v = Val{T: "(ival " + x.T + ")", Typ: t.AssertedType}
		default:
			box := "box." + sanitize(srt)
			e.B.declTop(box, fmt.Sprintf("(declare-fun %s (Int) %s)", box, srt))
			v = Val{T: fmt.Sprintf("(%s (ival %s))", box, x.T), Typ: t.AssertedType}
		}
	}
	if t.CommaOk {
		okn := e.B.define(fr.vname(t)+".ok", "Bool", ok)
		vn := e.B.define(fr.vname(t)+".v", e.B.sortOf(t.AssertedType), ite(okn, v.T, e.B.zeroOf(t.AssertedType)))
		if ii, isInt := intInfoOf(t.AssertedType); isInt {
			e.B.assume(implies(okn, ii.inRange(vn)))
		}
		fr.vals[t] = Val{Tup: []Val{{T: vn, Typ: t.AssertedType}, {T: okn, Typ: types.Typ[types.Bool]}}, Typ: t.Type()}
		return
	}
	if e.safetyOn() {
		e.addObl(fr, "type-assert", implies(reach, ok), "type assertion", t.Pos(), nil)
	}
	vn := e.B.define(fr.vname(t), e.B.sortOf(t.AssertedType), v.T)
	fr.vals[t] = Val{T: vn, Typ: t.AssertedType}
}

func (e *Enc) encodeSlice(fr *Frame, t *ssa.Slice, st *State, reach Term) {
	x := e.val(fr, t.X)
	var lo, hi, mx Term
	if t.Low != nil {
		lo = e.val(fr, t.Low).T
	} else {
		lo = "0"
	}
	switch xt := t.X.Type().Underlying().(type) {
	case *types.Slice:
		if t.High != nil {
			hi = e.val(fr, t.High).T
		} else {
			hi = "(slen " + x.T + ")"
		}
		if t.Max != nil {
			mx = e.val(fr, t.Max).T
		} else {
			mx = "(scap " + x.T + ")"
		}
		cond := fmt.Sprintf("(and (<= 0 %s) (<= %s %s) (<= %s %s) (<= %s (scap %s)))", lo, lo, hi, hi, mx, mx, x.T)
		if e.safetyOn() {
			e.addObl(fr, "slice-bounds", implies(reach, cond), fmt.Sprintf("slice %s[%s:%s]", t.X.Name(), lo, hi), t.Pos(), nil)
		} else {
			e.B.assume(implies(reach, cond))
		}
		e.bind(fr, t, fmt.Sprintf("(mkslice (sarr %s) (+ (soff %s) %s) (- %s %s) (- %s %s))", x.T, x.T, lo, hi, lo, mx, lo))
	case *types.Basic: // string slicing
		e.B.declTop("substr", "(declare-fun substr (Str Int Int) Str)")
		if t.High != nil {
			hi = e.val(fr, t.High).T
		} else {
			hi = "(strlen " + x.T + ")"
		}
		cond := fmt.Sprintf("(and (<= 0 %s) (<= %s %s) (<= %s (strlen %s)))", lo, lo, hi, hi, x.T)
		if e.safetyOn() {
			e.addObl(fr, "slice-bounds", implies(reach, cond), "string slice", t.Pos(), nil)
		}
		e.bind(fr, t, fmt.Sprintf("(substr %s %s %s)", x.T, lo, hi))
		e.B.assume(fmt.Sprintf("(= (strlen %s) (- %s %s))", fr.vals[t].T, hi, lo))
	case *types.Pointer: // slice of *array: fresh backing array with the array's content
		at := xt.Elem().Underlying().(*types.Array)
		if t.High != nil {
			hi = e.val(fr, t.High).T
		} else {
			hi = fmt.Sprint(at.Len())
		}
		content := e.getPlace(st, e.placeOf(x, xt.Elem()))
		ref := e.newRef(st)
		h := e.heapOf(st, at.Elem())
		stateSorts[e.B.heapName(at.Elem())] = e.B.heapSort(at.Elem())
		e.set(st, e.B.heapName(at.Elem()), e.B.heapSort(at.Elem()), fmt.Sprintf("(store %s %s %s)", h, ref, content))
		e.bind(fr, t, fmt.Sprintf("(mkslice %s %s (- %s %s) (- %d %s))", ref, lo, hi, lo, at.Len(), lo))
		e.note("slice of array in %s copies the array (aliasing with the array variable not modelled)", fr.fn.Name())
	default:
		fail("Slice on %s", t.X.Type())
	}
}

// ---------------------------------------------------------------------------
// Loops
// ---------------------------------------------------------------------------

// enterLoop checks the invariants on every entry edge, havocs what the loop
// modifies and assumes the invariants for an arbitrary iteration.
func (e *Enc) enterLoop(fr *Frame, li *LoopInfo, h *ssa.BasicBlock, inEdges []Term, in *State) *State {
	var invs []*Clause
	if fr.con != nil {
		invs = fr.con.LoopInvs[li.Ordinal]
	}
	for _, ins := range h.Instrs {
		if _, ok := ins.(*ssa.Defer); ok {
			fail("defer inside loop in %s", fr.fn.Name())
		}
	}
	// entry obligations, per entry edge (merged: the in-state is already the
	// merge over entry edges, so phis take their entry values by ite)
	entryPhi := map[*ssa.Phi]Val{}
	for _, ins := range h.Instrs {
		phi, ok := ins.(*ssa.Phi)
		if !ok {
			break
		}
		var t Term
		first := true
		var fnv *ssa.Function
		for i := len(phi.Edges) - 1; i >= 0; i-- {
			if inEdges[i] == "false" {
				continue
			}
			v := e.val(fr, phi.Edges[i])
			if first {
				t, first, fnv = v.T, false, v.Fn
			} else {
				t = ite(inEdges[i], v.T, t)
			}
		}
		entryPhi[phi] = Val{T: t, Typ: phi.Type(), Fn: fnv}
	}
	reach := fr.reach[h]
	for k, inv := range invs {
		if !clauseActive(inv) {
			continue
		}
		ctx := e.loopCtx(fr, li, h, entryPhi, in)
		g := e.compileBool(ctx, inv.Expr)
		o := e.addObl(fr, fmt.Sprintf("loop%d-entry", li.Ordinal), implies(reach, g), inv.Src, h.Instrs[0].Pos(), inv.Props)
		o.Name = fmt.Sprintf("%s/loop%d-entry#%d", contractName(e.top), li.Ordinal, k+1)
		o.Group = inv.Group
	}
	// havoc
	st := in.clone()
	mods := e.loopMods(fr, li)
	if mods["*heaps"] && !mods["*"] {
		for k := range stateSorts {
			if strings.HasPrefix(k, "HS.") || strings.HasPrefix(k, "HM.") {
				mods[k] = true
			}
		}
		for k := range st.m {
			if strings.HasPrefix(k, "HS.") || strings.HasPrefix(k, "HM.") {
				mods[k] = true
			}
		}
	}
	if mods["*heaps"] || mods["*"] {
		st.epoch = e.B.freshName("ep")
	}
	delete(mods, "*heaps")
	if mods["*"] {
		for _, g := range append(append([]string{}, e.CS.GhostOrder...), "sends", "nilsends", "recvs") {
			key, _, _ := e.ghostKey(g)
			mods[key] = true
		}
		for k := range stateSorts {
			if strings.HasPrefix(k, "HS.") || strings.HasPrefix(k, "HM.") || strings.HasPrefix(k, "ghost.") {
				mods[k] = true
			}
		}
		for k := range st.m {
			if strings.HasPrefix(k, "HS.") || strings.HasPrefix(k, "HM.") || strings.HasPrefix(k, "ghost.") {
				mods[k] = true
			}
		}
	}
	// "~K": K is only modified at objects this function allocated itself
	// (allocations, append results, stores into local cells). Memory that
	// existed when the frame was entered is then unchanged by the loop, which
	// is assumed below (justified syntactically, not an obligation).
	freshOnly := map[string]bool{}
	for k := range mods {
		if strings.HasPrefix(k, "~") {
			base := k[1:]
			if !mods[base] && !mods["*"] {
				freshOnly[base] = true
			}
			mods[base] = true
			delete(mods, k)
		}
	}
	var mk []string
	for k := range mods {
		mk = append(mk, k)
	}
	sortStrings(mk)
	a0 := e.get(fr.entry, "alloc", "Int")
	if mods["alloc"] {
		e.havocAlloc(st) // first: the heap invariant of the havocked heaps refers to it
	}
	for _, k := range mk {
		if k == "*" || k == "alloc" {
			continue
		}
		srt, ok := stateSorts[k]
		if !ok {
			continue
		}
		pre := e.get(st, k, srt)
		st.m[k] = e.baseHeap(st, k, "@loop", srt)
		if freshOnly[k] && strings.HasPrefix(k, "HS.") {
			q := e.B.freshName("fr")
			e.B.assume(fmt.Sprintf("(forall ((%s Int)) (! (=> (>= %s %s) (= (select %s %s) (select %s %s))) :pattern ((select %s %s))))",
				q, q, a0, st.m[k], q, pre, q, st.m[k], q))
		}
	}
	// an address that escapes anywhere in the loop has escaped for every
	// iteration after the first
	for b := range li.Blocks {
		for _, ins := range b.Instrs {
			if _, isPhi := ins.(*ssa.Phi); !isPhi {
				fr.markEscapes(ins)
			}
		}
	}
	e.restoreLocals(fr, in, st, li.Blocks)
	// loop-carried registers
	hphi := map[*ssa.Phi]Val{}
	for _, ins := range h.Instrs {
		phi, ok := ins.(*ssa.Phi)
		if !ok {
			break
		}
		if _, isTuple := phi.Type().(*types.Tuple); isTuple {
			fail("tuple phi")
		}
		v := e.freshOf(fr.vname(phi), phi.Type(), st)
		val := Val{T: v, Typ: phi.Type(), Fn: entryPhi[phi].Fn}
		fr.vals[phi] = val
		hphi[phi] = val
	}
	// assume invariants
	for _, inv := range invs {
		if !clauseActive(inv) {
			continue
		}
		ctx := e.loopCtx(fr, li, h, hphi, st)
		e.B.assumeG(implies(reach, e.compileBool(ctx, inv.Expr)), inv.Group)
	}
	if len(invs) == 0 {
		e.note("loop %d of %s has no invariant (havoc only)", li.Ordinal, contractName(fr.fn))
	}
	return st
}

func (e *Enc) checkBackEdge(fr *Frame, li *LoopInfo, from *ssa.BasicBlock, cond Term, st *State) {
	var invs []*Clause
	if fr.con != nil {
		invs = fr.con.LoopInvs[li.Ordinal]
	}
	if len(invs) == 0 {
		return
	}
	h := li.Header
	pi := -1
	for i, p := range h.Preds {
		if p == from {
			pi = i
		}
	}
	ov := map[*ssa.Phi]Val{}
	for _, ins := range h.Instrs {
		phi, ok := ins.(*ssa.Phi)
		if !ok {
			break
		}
		ov[phi] = e.val(fr, phi.Edges[pi])
	}
	for k, inv := range invs {
		if !clauseActive(inv) {
			continue
		}
		ctx := e.loopCtx(fr, li, h, ov, st)
		g := e.compileBool(ctx, inv.Expr)
		o := e.addObl(fr, fmt.Sprintf("loop%d-preserved", li.Ordinal), implies(cond, g), inv.Src, h.Instrs[0].Pos(), inv.Props)
		o.Name = fmt.Sprintf("%s/loop%d-preserved#%d@b%d", contractName(e.top), li.Ordinal, k+1, from.Index)
		o.Cases = mergeCases(fr, from, li)
		o.Group = inv.Group
		if checkProp == "" || hasProp(o.Props, checkProp) {
			e.B.assumeG(implies(cond, g), inv.Group)
		}
	}
}

// loopMods computes the state keys the loop body may modify.
func (e *Enc) loopMods(fr *Frame, li *LoopInfo) map[string]bool {
	mods := map[string]bool{}
	for b := range li.Blocks {
		e.scanBlockMods(fr.fn, b, mods, 0, fr)
	}
	return mods
}

func (e *Enc) scanFuncMods(fn *ssa.Function, mods map[string]bool, depth int) {
	for _, b := range fn.Blocks {
		e.scanBlockMods(fn, b, mods, depth, nil)
	}
}

func (e *Enc) scanBlockMods(fn *ssa.Function, b *ssa.BasicBlock, mods map[string]bool, depth int, fr *Frame) {
	// event counters bumped at anchored calls of this function (`at call … bump`):
	// conservatively modified by every block of it
	if fr != nil && fr.con != nil {
		for _, aa := range fr.con.Asserts {
			if aa.Bump != "" {
				mods["ghost."+aa.Bump] = true
			}
		}
	}
	for _, ins := range b.Instrs {
		switch t := ins.(type) {
		case *ssa.Store:
			e.scanAddrMods(t.Addr, mods)
		case *ssa.Go:
			if e.CS.Ghosts["gos"] != nil {
				mods["ghost.gos"] = true
			}
		case *ssa.MapUpdate:
			mt := t.Map.Type().Underlying().(*types.Map)
			mods[e.mapKey(mt, "dom")] = true
			mods[e.mapKey(mt, "val")] = true
		case *ssa.Alloc:
			mods["alloc"] = true
			elem := t.Type().(*types.Pointer).Elem()
			mods["~"+e.B.heapName(elem)] = true
			stateSorts[e.B.heapName(elem)] = e.B.heapSort(elem)
		case *ssa.MakeSlice:
			mods["alloc"] = true
			elem := t.Type().Underlying().(*types.Slice).Elem()
			mods["~"+e.B.heapName(elem)] = true
			stateSorts[e.B.heapName(elem)] = e.B.heapSort(elem)
		case *ssa.Slice:
			if pt, ok := t.X.Type().Underlying().(*types.Pointer); ok {
				mods["alloc"] = true
				elem := pt.Elem().Underlying().(*types.Array).Elem()
				mods["~"+e.B.heapName(elem)] = true
				stateSorts[e.B.heapName(elem)] = e.B.heapSort(elem)
			}
		case *ssa.MakeMap:
			mods["alloc"] = true
			mt := t.Type().Underlying().(*types.Map)
			mods[e.mapKey(mt, "dom")] = true
			mods[e.mapKey(mt, "val")] = true
		case *ssa.MakeChan, *ssa.MakeClosure:
			mods["alloc"] = true
		case *ssa.MakeInterface:
		case *ssa.Send:
			mods["ghost.sends"] = true
			mods["ghost.nilsends"] = true
		case *ssa.Select:
			mods["ghost.sends"] = true
			mods["ghost.nilsends"] = true
			mods["ghost.recvs"] = true
		case *ssa.UnOp:
			if t.Op == token.ARROW {
				mods["ghost.recvs"] = true
			}
		case *ssa.Next:
			if fr != nil {
				if it := fr.iterInfo[t.Iter]; it != nil {
					mods[it.visited] = true
				}
			}
			mods["iter:"+t.Iter.Name()] = true
		case ssa.CallInstruction:
			e.scanCallMods(fn, t, mods, depth)
		}
	}
}

func (e *Enc) scanAddrMods(addr ssa.Value, mods map[string]bool) {
	// find the root object type of the address expression
	for {
		switch a := addr.(type) {
		case *ssa.FieldAddr:
			addr = a.X
			continue
		case *ssa.IndexAddr:
			if pt, ok := a.X.Type().Underlying().(*types.Pointer); ok {
				_ = pt
				addr = a.X
				continue
			}
		}
		break
	}
	elem := addr.Type().Underlying().(*types.Pointer).Elem()
	if _, isAlloc := addr.(*ssa.Alloc); isAlloc {
		// a store into a cell this function allocated: pre-existing memory untouched
		mods["~"+e.B.heapName(elem)] = true
	} else {
		mods[e.B.heapName(elem)] = true
	}
	stateSorts[e.B.heapName(elem)] = e.B.heapSort(elem)
}

func sortStrings(s []string) {
	for i := 1; i < len(s); i++ {
		for j := i; j > 0 && s[j] < s[j-1]; j-- {
			s[j], s[j-1] = s[j-1], s[j]
		}
	}
}

// mergeCases: the conditions of the forward edges merged at the nearest join at
// or before block b (inside the loop): the state an obligation at b is stated
// over is an ite-merge over exactly these conditions, so a goal the solvers
// cannot decide as a whole is retried per case (check.go), each case having
// its ite guards decided by unit propagation.
func mergeCases(fr *Frame, b *ssa.BasicBlock, li *LoopInfo) []Term {
	for steps := 0; steps < 4 && b != nil; steps++ {
		if cs := fr.inConds[b]; len(cs) > 1 {
			return cs
		}
		if li != nil && b == li.Header {
			return nil
		}
		var next *ssa.BasicBlock
		for _, p := range b.Preds {
			if isBackEdge(p, b) {
				continue
			}
			if next != nil {
				return nil
			}
			next = p
		}
		b = next
	}
	return nil
}
