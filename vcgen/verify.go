package main

import (
	"go/token"
	"fmt"
	"go/types"
	"strings"

	"golang.org/x/tools/go/ssa"
)

// FuncResult is what encoding one function under contract produced.
type FuncResult struct {
	Name        string
	Obls        []*Obligation
	Builder     *Builder
	Notes       []string
	Exact       int
	Abstracted  int
	ByContract  []string
	Inlined     []string
	Havoc       []string
	Externs     []string
	Err         string
	Loops       int
	Clauses     int
	Plan        *ReplayPlan
	Unbound     string // the contract could not be bound to the code (reason)
	UsesSum     bool   // some clause uses a fold: the isum lemmas are proved alongside
}

// afterRequires, when set (counterexample replay), is called once the
// parameters, ghosts, lets, package invariants and preconditions of a function
// have been encoded; verifyFunction then stops without encoding the body.
// checkProp is the property being checked (empty: all obligations).
var checkProp string

// clauseActive: a clause tagged with properties takes part (as assumption and
// as obligation) only in the checks of those properties; untagged clauses take
// part in every check of their function.
func clauseActive(cl *Clause) bool {
	return checkProp == "" || len(cl.Props) == 0 || hasProp(cl.Props, checkProp)
}

var afterRequires func(e *Enc, fr *Frame, entry *State, mkctx func(*State, []Val, string) *SpecCtx)

func keys(m map[string]bool) []string {
	var out []string
	for k := range m {
		out = append(out, k)
	}
	sortStrings(out)
	return out
}

// verifyFunction generates every obligation of one function under contract.
func verifyFunction(l *Loaded, cs *Contracts, fn *ssa.Function, con *Contract) (res *FuncResult) {
	e := newEnc(l, cs, fn, con)
	stateSorts = map[string]string{"alloc": "Int"} // per function: sorts are declared per builder
	res = &FuncResult{Name: contractName(fn), Builder: e.B}
	defer func() {
		res.UsesSum = e.usesSum
		if r := recover(); r != nil {
			if ee, ok := r.(encErr); ok {
				res.Err = ee.msg
				return
			}
			panic(r)
		}
	}()
	st := &State{m: map[string]Term{}}
	fr := &Frame{fn: fn, con: con, id: 0, pc: "true"}
	names := map[string]CE{}
	var model []ModelVar
	for _, p := range fn.Params {
		n := "p." + sanitize(p.Name())
		e.B.emit(fmt.Sprintf("(declare-const %s %s)", n, e.B.sortOf(p.Type())))
		e.assumeWF(n, p.Type(), st)
		fr.params = append(fr.params, Val{T: n, Typ: p.Type()})
		names[p.Name()] = CE{T: n, Typ: p.Type()}
		model = append(model, ModelVar{Name: p.Name(), Term: n, Type: p.Type().String()})
	}
	for _, fv := range fn.FreeVars {
		n := "fv." + sanitize(fv.Name())
		e.B.emit(fmt.Sprintf("(declare-const %s %s)", n, e.B.sortOf(fv.Type())))
		e.assumeWF(n, fv.Type(), st)
		if _, isPtr := fv.Type().Underlying().(*types.Pointer); isPtr {
			e.B.assume("(not (= " + n + " nilptr))") // a captured variable's cell always exists
		}
		fr.binds = append(fr.binds, Val{T: n, Typ: fv.Type()})
		names["&"+fv.Name()] = CE{T: n, Typ: fv.Type()}
	}
	for _, g := range con.Ghosts {
		srt, typ := specSort(g.Type)
		if srt == "" {
			fail("ghost %s: bad type %s", g.Name, g.Type)
		}
		n := "g." + sanitize(g.Name)
		e.B.emit(fmt.Sprintf("(declare-const %s %s)", n, srt))
		names[g.Name] = CE{T: n, Typ: typ}
		model = append(model, ModelVar{Name: "ghost " + g.Name, Term: n, Type: g.Type})
	}
	entry := st.clone()
	e.entryState = entry
	e.topNames = names
	fvNames := func(s *State, m map[string]CE) {
		for i, fv := range fn.FreeVars {
			if pt, ok := fv.Type().Underlying().(*types.Pointer); ok {
				pl := &Place{Kind: PDeref, Ptr: fr.binds[i].T, Typ: pt.Elem()}
				m[fv.Name()] = CE{T: e.getPlace(s, pl), Typ: pt.Elem(), P: pl}
			}
		}
	}
	mkctx := func(s *State, results []Val, what string) *SpecCtx {
		c := &SpecCtx{e: e, fr: fr, st: s, old: entry, names: map[string]CE{}, results: results, resNames: resultNames(fn.Signature), what: what}
		for k, v := range names {
			c.names[k] = v
		}
		fvNames(s, c.names)
		return c
	}
	// lets are evaluated in the entry state
	{
		c := mkctx(entry, nil, "let")
		for _, lt := range con.Lets {
			names[lt.Name] = e.compile(c, lt.Expr)
			c.names[lt.Name] = names[lt.Name]
		}
	}
	for _, gl := range cs.Globals {
		e.B.assume(e.compileBool(mkctx(entry, nil, "global invariant"), gl.Expr))
		e.note("package invariant assumed on entry: %s", gl.Src)
	}
	for _, rq := range con.Requires {
		res.Clauses++
		if !clauseActive(rq) {
			continue // a precondition stated for another property only is not an assumption of this one
		}
		e.B.assume(e.compileBool(mkctx(entry, nil, "requires of "+res.Name), rq.Expr))
	}
	if afterRequires != nil {
		afterRequires(e, fr, entry, mkctx)
		return res
	}
	// vacuity guard: the preconditions are satisfiable
	cov := e.addObl(fr, "cover-requires", "false", "preconditions are satisfiable", fn.Pos(), nil)
	cov.Cover = true

	for _, ap := range con.Appends {
		e.note("spare capacity of %s assumed to be owned by that place alone (appends)", ap.Src)
	}
	if con.AllocLimit != nil {
		e.allocLimit = e.compile(mkctx(entry, nil, "alloc_limit of "+res.Name), con.AllocLimit).T
	}
	// ghost assignments executed on entry
	for _, eg := range con.Entry {
		key, srt, _ := e.ghostKey(eg.Name)
		v := e.compile(mkctx(st, nil, "entry ghost of "+res.Name), eg.Expr)
		st.m[key] = e.B.define(key, srt, v.T)
	}

	rets, out, returns := e.encodeBody(fr, st)
	e.copyOutFor(fr, out)

	// vacuity guard: some path returns normally
	cov2 := e.addObl(fr, "cover-returns", not(returns), "some path returns", fn.Pos(), nil)
	cov2.Cover = true

	// ghost assignments executed on return
	for _, eg := range con.Exit {
		key, srt, _ := e.ghostKey(eg.Name)
		v := e.compile(mkctx(out, rets, "exit ghost of "+res.Name), eg.Expr)
		out.m[key] = e.B.define(key, srt, v.T)
	}

	for k, en := range con.Ensures {
		if !clauseActive(en) {
			res.Clauses++
			continue
		}
		ctx := mkctx(out, rets, "ensures of "+res.Name)
		g := e.compileBool(ctx, en.Expr)
		o := e.addObl(fr, "ensures", implies(returns, g), en.Src, fn.Pos(), en.Props)
		o.Name = fmt.Sprintf("%s/ensures#%d", res.Name, k+1)
		o.Cases = e.retConds // one case per return site
		o.Model = model
		res.Clauses++
		// clauses are proved in order: a later one may use the earlier ones of
		// the same run (each is an obligation of this very check)
		if checkProp == "" || hasProp(o.Props, checkProp) {
			e.B.assume(implies(returns, g))
		}
	}
	// frame: what is not named by modifies is unchanged
	if !con.Extern {
		e.frameObligations(fr, con, mkctx, entry, out, returns)
	}
	// concrete-replay plan: which terms of the entry state to read from a model
	res.Plan = e.buildReplayPlan(fn, fr, entry, con)
	model = append(model, res.Plan.vars...)
	for _, o := range e.obls {
		if o.Model == nil || o.Kind == "ensures" {
			o.Model = model
		}
	}
	for _, invs := range con.LoopInvs {
		res.Clauses += len(invs)
	}
	// obligation names are file names and finding keys: make them unique (the
	// same call inside a deferred closure is encoded once per return site)
	dup := map[string]int{}
	for _, o := range e.obls {
		dup[o.Name]++
		if n := dup[o.Name]; n > 1 {
			o.Name = fmt.Sprintf("%s~%d", o.Name, n)
		}
	}
	res.Obls = e.obls
	res.Notes = e.notes
	res.Exact, res.Abstracted = e.exact, e.abstracted
	res.ByContract, res.Inlined, res.Havoc, res.Externs = keys(e.calleesByContract), keys(e.calleesInlined), keys(e.calleesHavoc), keys(e.externsUsed)
	res.Loops = len(fr.loops)
	return res
}

// frameObligations proves that every heap / ghost variable the function
// changed is covered by its modifies clause (default: modifies nothing).
// Objects allocated by the function itself (refs below the entry allocation
// mark) are exempt.
func (e *Enc) frameObligations(fr *Frame, con *Contract, mkctx func(*State, []Val, string) *SpecCtx, entry, out *State, returns Term) {
	allowAll, allowHeaps := false, false
	allowed := map[string][]string{} // heap key -> allowed cell predicates over (r, i)
	allowedGhost := map[string]bool{}
	allowedMaps := map[string][]string{}
	fieldTargets := map[string][]int{}
	fieldCell := map[string]*Place{}
	wholeCell := map[string]bool{}
	var fieldOrder []string
	ctx := mkctx(entry, nil, "modifies of "+contractName(fr.fn))
	for _, target := range con.Modifies {
		switch {
		case target == "all":
			allowAll = true
		case target == "heaps":
			allowHeaps = true
		case strings.HasPrefix(target, "ghost."):
			allowedGhost[target] = true
		case strings.HasPrefix(target, "heap("):
			t := e.lookupType(target[5 : len(target)-1])
			if t != nil {
				allowed[e.B.heapName(t)] = append(allowed[e.B.heapName(t)], "true")
			}
		case strings.HasPrefix(target, "map("):
			x, err := parseExpr(target[4 : len(target)-1])
			if err != nil {
				fail("modifies %s: %v", target, err)
			}
			ce := e.compile(ctx, x)
			mt := ce.Typ.Underlying().(*types.Map)
			allowedMaps[e.mapKey(mt, "dom")] = append(allowedMaps[e.mapKey(mt, "dom")], ce.T)
			allowedMaps[e.mapKey(mt, "val")] = append(allowedMaps[e.mapKey(mt, "val")], ce.T)
		case strings.HasSuffix(target, "[*]"):
			x, err := parseExpr(strings.TrimSuffix(target, "[*]"))
			if err != nil {
				fail("modifies %s: %v", target, err)
			}
			ce := e.compile(ctx, x)
			sl := ce.Typ.Underlying().(*types.Slice)
			k := e.B.heapName(sl.Elem())
			allowed[k] = append(allowed[k], "(= r (sarr "+ce.T+"))")
		default:
			x, err := parseExpr(target)
			if err != nil {
				fail("modifies %s: %v", target, err)
			}
			ce := e.compile(ctx, x)
			if ce.P == nil {
				fail("modifies %s: not an lvalue", target)
			}
			p := ce.P
			for p.Kind != PDeref {
				p = p.Base
			}
			k := e.B.heapName(p.Typ)
			allowed[k] = append(allowed[k], fmt.Sprintf("(and (= r (pref %s)) (= i (pidx %s)))", p.Ptr, p.Ptr))
			// a field-level target ("c.buf"): callers keep the cell's other
			// fields, so those must be proved unchanged
			if ce.P.Kind == PField && ce.P.Base.Kind == PDeref {
				key := k + "|" + p.Ptr
				if _, seen := fieldTargets[key]; !seen {
					fieldOrder = append(fieldOrder, key)
					fieldCell[key] = p
				}
				fieldTargets[key] = append(fieldTargets[key], ce.P.Field)
			} else {
				wholeCell[k+"|"+p.Ptr] = true
			}
		}
	}
	for _, key := range fieldOrder {
		if wholeCell[key] {
			continue
		}
		p := fieldCell[key]
		st := p.Typ.Underlying().(*types.Struct)
		was := e.getPlace(entry, p)
		now := e.getPlace(out, p)
		if was == now {
			continue
		}
		var eqs []Term
		for j := 0; j < st.NumFields(); j++ {
			listed := false
			for _, f := range fieldTargets[key] {
				if f == j {
					listed = true
				}
			}
			if !listed {
				eqs = append(eqs, fmt.Sprintf("(= %s %s)", e.B.structField(p.Typ, now, j), e.B.structField(p.Typ, was, j)))
			}
		}
		o := e.addObl(fr, "frame", implies(returns, and(eqs...)), "fields outside modifies unchanged: "+shortTypeName(p.Typ), fr.fn.Pos(), nil)
		o.Name = fmt.Sprintf("%s/frame-fields:%s", contractName(fr.fn), sanitize(shortTypeName(p.Typ)))
	}
	if allowAll {
		return
	}
	a0 := e.get(entry, "alloc", "Int")
	var ks []string
	for k := range out.m {
		ks = append(ks, k)
	}
	sortStrings(ks)
	for _, k := range ks {
		cur := out.m[k]
		srt, ok := stateSorts[k]
		if !ok {
			continue
		}
		old := e.get(entry, k, srt)
		if cur == old {
			continue
		}
		switch {
		case strings.HasPrefix(k, "HS."):
			if allowHeaps {
				continue
			}
			r := e.B.declConst("fr.r", "Int")
			i := e.B.declConst("fr.i", "Int")
			var al []Term
			for _, a := range allowed[k] {
				a = strings.ReplaceAll(a, "(= r ", "(= "+r+" ")
				a = strings.ReplaceAll(a, "(= i ", "(= "+i+" ")
				al = append(al, a)
			}
			goal := implies(and(returns, "(>= "+r+" "+a0+")", not(or(al...))),
				fmt.Sprintf("(= (select (select %s %s) %s) (select (select %s %s) %s))", cur, r, i, old, r, i))
			o := e.addObl(fr, "frame", goal, "unchanged outside modifies: "+k, fr.fn.Pos(), nil)
			o.Name = fmt.Sprintf("%s/frame:%s", contractName(fr.fn), k)
		case strings.HasPrefix(k, "HM."):
			if allowHeaps {
				continue
			}
			r := e.B.declConst("fr.m", "Int")
			var al []Term
			for _, a := range allowedMaps[k] {
				al = append(al, "(= "+r+" "+a+")")
			}
			goal := implies(and(returns, "(>= "+r+" "+a0+")", not(or(al...))),
				fmt.Sprintf("(= (select %s %s) (select %s %s))", cur, r, old, r))
			o := e.addObl(fr, "frame", goal, "unchanged outside modifies: "+k, fr.fn.Pos(), nil)
			o.Name = fmt.Sprintf("%s/frame:%s", contractName(fr.fn), k)
		case strings.HasPrefix(k, "ghost."):
			if allowedGhost[k] {
				continue
			}
			o := e.addObl(fr, "frame", implies(returns, "(= "+cur+" "+old+")"), "ghost unchanged: "+k, fr.fn.Pos(), nil)
			o.Name = fmt.Sprintf("%s/frame:%s", contractName(fr.fn), k)
		}
	}
}

// loopCtx is the spec context of loop li's invariants, with the header phis
// bound to the given values.
func (e *Enc) loopCtx(fr *Frame, li *LoopInfo, h *ssa.BasicBlock, phis map[*ssa.Phi]Val, st *State) *SpecCtx {
	c := e.frameCtx(fr, st, h, 0, phis)
	c.what = fmt.Sprintf("loop %d invariant of %s", li.Ordinal, contractName(fr.fn))
	return c
}

// frameCtx resolves names at a program point of frame fr.
func (e *Enc) frameCtx(fr *Frame, st *State, b *ssa.BasicBlock, idx int, phis map[*ssa.Phi]Val) *SpecCtx {
	c := &SpecCtx{e: e, fr: fr, st: st, old: fr.entry, names: map[string]CE{}}
	if fr.parent == nil && e.entryState != nil {
		c.old = e.entryState
	}
	// contract-level names of the top function (ghost params, lets) stay visible
	c.lookup = func(name string) (CE, bool) {
		return e.lookupLocal(fr, name, b, idx, phis, c)
	}
	return c
}

func (e *Enc) lookupLocal(fr *Frame, name string, b *ssa.BasicBlock, idx int, phis map[*ssa.Phi]Val, c *SpecCtx) (CE, bool) {
	st := c.st
	phiVal := func(p *ssa.Phi) (CE, bool) {
		if v, ok := phis[p]; ok {
			return CE{T: v.T, Typ: p.Type(), Fn: v.Fn}, true
		}
		if v, ok := fr.vals[p]; ok {
			return CE{T: v.T, Typ: p.Type(), Fn: v.Fn}, true
		}
		return CE{}, false
	}
	if strings.HasPrefix(name, "$visited") && len(name) > len("$visited") {
		// $visited<k>: the visited set of map-range loop k (an enclosing loop's
		// set, seen from an inner loop's invariant)
		var k int
		if _, err := fmt.Sscanf(name[len("$visited"):], "%d", &k); err == nil {
			for h, li := range fr.loops {
				if li.Ordinal != k {
					continue
				}
				for _, ins := range h.Instrs {
					if nx, ok := ins.(*ssa.Next); ok {
						if it := fr.iterInfo[nx.Iter]; it != nil && !it.isStr {
							srt := stateSorts[it.visited]
							return CE{T: e.get(st, it.visited, srt), Arr: srt}, true
						}
					}
				}
			}
		}
		return CE{}, false
	}
	if strings.HasPrefix(name, "$index") && len(name) > len("$index") {
		// $index<k>: the hidden range index of (enclosing) loop k
		var k int
		if _, err := fmt.Sscanf(name[len("$index"):], "%d", &k); err == nil {
			for h, li := range fr.loops {
				if li.Ordinal != k {
					continue
				}
				for _, ins := range h.Instrs {
					if p, ok := ins.(*ssa.Phi); ok && p.Comment == "rangeindex" {
						return phiVal(p)
					}
				}
			}
		}
		return CE{}, false
	}
	if strings.HasPrefix(name, "$range") && len(name) > len("$range") {
		// $range<k>: what rangeindex loop k ranges over (an enclosing loop's slice)
		var k int
		if _, err := fmt.Sscanf(name[len("$range"):], "%d", &k); err == nil {
			for h, li := range fr.loops {
				if li.Ordinal != k {
					continue
				}
				for _, ins := range h.Instrs {
					bo, ok := ins.(*ssa.BinOp)
					if !ok || bo.Op != token.LSS {
						continue
					}
					if call, ok := bo.Y.(*ssa.Call); ok {
						if bi, ok := call.Call.Value.(*ssa.Builtin); ok && bi.Name() == "len" && len(call.Call.Args) == 1 {
							v := e.val(fr, call.Call.Args[0])
							return CE{T: v.T, Typ: call.Call.Args[0].Type()}, true
						}
					}
				}
			}
		}
		return CE{}, false
	}
	if name == "$range" {
		// the slice a "for i := range s" loop ranges over (it may have no source
		// name, e.g. "range f(x)"): the operand of the len() the header compares
		// the index with
		for _, ins := range b.Instrs {
			bo, ok := ins.(*ssa.BinOp)
			if !ok || bo.Op != token.LSS {
				continue
			}
			if call, ok := bo.Y.(*ssa.Call); ok {
				if bi, ok := call.Call.Value.(*ssa.Builtin); ok && bi.Name() == "len" && len(call.Call.Args) == 1 {
					v := e.val(fr, call.Call.Args[0])
					return CE{T: v.T, Typ: call.Call.Args[0].Type()}, true
				}
			}
		}
		return CE{}, false
	}
	if name == "$index" || name == "$visited" {
		if name == "$index" {
			for _, ins := range b.Instrs {
				if p, ok := ins.(*ssa.Phi); ok && p.Comment == "rangeindex" {
					return phiVal(p)
				}
			}
			return CE{}, false
		}
		// the map iterator advanced in this header block
		for _, ins := range b.Instrs {
			if nx, ok := ins.(*ssa.Next); ok {
				if it := fr.iterInfo[nx.Iter]; it != nil && !it.isStr {
					srt := stateSorts[it.visited]
					return CE{T: e.get(st, it.visited, srt), Arr: srt}, true
				}
			}
		}
		return CE{}, false
	}
	// phis of the block itself
	for _, ins := range b.Instrs {
		p, ok := ins.(*ssa.Phi)
		if !ok {
			break
		}
		if p.Comment == name {
			return phiVal(p)
		}
	}
	blk := b
	start := idx - 1
	for blk != nil {
		if start >= len(blk.Instrs) {
			start = len(blk.Instrs) - 1
		}
		for i := start; i >= 0; i-- {
			switch t := blk.Instrs[i].(type) {
			case *ssa.Phi:
				if t.Comment == name && blk != b {
					return phiVal(t)
				}
			case *ssa.DebugRef:
				obj := t.Object()
				if obj == nil || obj.Name() != name {
					continue
				}
				if vr, isVar := obj.(*types.Var); !isVar || vr.IsField() {
					// (a DebugRef of x.f names the field object f: not a local)
					continue
				}
				// a variable that lives in a cell (address taken / captured) is
				// read from the cell, whatever kind of reference was found first
				if cell := cellOf(fr.fn, obj); cell != nil && !t.IsAddr {
					if v, ok := fr.vals[cell]; ok {
						pt := cell.Type().Underlying().(*types.Pointer)
						pl := e.placeOf(v, pt.Elem())
						return CE{T: e.getPlace(st, pl), Typ: pt.Elem(), P: pl}, true
					}
				}
				if t.IsAddr {
					v, ok := fr.vals[t.X]
					if !ok {
						continue
					}
					pt, ok := t.X.Type().Underlying().(*types.Pointer)
					if !ok {
						continue
					}
					pl := e.placeOf(v, pt.Elem())
					return CE{T: e.getPlace(st, pl), Typ: pt.Elem(), P: pl}, true
				}
				if ph, isPhi := t.X.(*ssa.Phi); isPhi {
					if v, ok := phiVal(ph); ok {
						return v, true
					}
				}
				v, ok := fr.vals[t.X]
				if !ok {
					if k, isC := t.X.(*ssa.Const); isC {
						cv := e.constVal(k)
						return CE{T: cv.T, Typ: k.Type()}, true
					}
					continue
				}
				return CE{T: v.T, P: v.P, Typ: t.X.Type(), Fn: v.Fn}, true
			}
		}
		blk = blk.Idom()
		if blk != nil {
			start = len(blk.Instrs) - 1
		}
	}
	for i, p := range fr.fn.Params {
		if p.Name() == name {
			v := fr.params[i]
			return CE{T: v.T, P: v.P, Typ: p.Type(), Fn: v.Fn}, true
		}
	}
	for i, fv := range fr.fn.FreeVars {
		if fv.Name() == name {
			if pt, ok := fv.Type().Underlying().(*types.Pointer); ok {
				pl := &Place{Kind: PDeref, Ptr: fr.binds[i].T, Typ: pt.Elem()}
				return CE{T: e.getPlace(st, pl), Typ: pt.Elem(), P: pl}, true
			}
		}
	}
	// names of the top-level contract (ghost params, lets)
	if fr.parent == nil && e.topNames != nil {
		if v, ok := e.topNames[name]; ok {
			return v, true
		}
	}
	return CE{}, false
}
