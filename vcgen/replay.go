package main

// Counterexample replay against the real code.
//
// When an obligation fails with a model, the model's entry state is turned into
// concrete Go values, the real function is called on them (a generated
// in-package test injected with `go test -overlay`, nothing is written to the
// repository), and what the real code did is compared with the contract:
//
//   - safety obligations: the call panics                      -> confirmed
//   - ensures obligations of functions that modify nothing:    the observed
//     results are pinned next to the inputs and the clause is evaluated by the
//     solver; "inputs ∧ requires ∧ observed results ∧ clause" unsatisfiable
//     while "inputs ∧ requires" is satisfiable                 -> confirmed
//
// Everything else (heap-mutating functions, channels, maps, closures, values
// the model leaves abstract) is reported as unsupported/not-reproduced and the
// VIOLATION line then ends with no-failing-input-found.

import (
	"bytes"
	"context"
	"encoding/json"
	"fmt"
	"go/types"
	"math"
	"math/big"
	"os"
	"os/exec"
	"path/filepath"
	"sort"
	"strconv"
	"strings"
	"time"

	"golang.org/x/tools/go/ssa"
)

const replayMaxElems = 8

type rnode struct {
	kind   string // int bool float string struct slice ptr iface unsupported
	typ    types.Type
	term   Term
	path   string
	why    string   // unsupported: reason
	fields []*rnode // struct
	elems  []*rnode // slice (first replayMaxElems)
	ptee   *rnode   // pointer
}

type ReplayPlan struct {
	fn     *ssa.Function
	con    *Contract
	params []*rnode
	ghosts []GhostParam
	vars   []ModelVar
	small  []Term // size terms (slice lengths) to keep small in a replayable model
	typed  []Term // range facts of every integer leaf read from the entry state
	b      *Builder
	nlits  int
	seen   map[string]bool
}

func (p *ReplayPlan) want(name string, term Term) {
	if p.seen[name] {
		return
	}
	p.seen[name] = true
	p.vars = append(p.vars, ModelVar{Name: "~" + name, Term: term, Type: "replay"})
}

// buildReplayPlan records which entry-state terms to read from a model.
func (e *Enc) buildReplayPlan(fn *ssa.Function, fr *Frame, entry *State, con *Contract) *ReplayPlan {
	p := &ReplayPlan{fn: fn, con: con, b: e.B, seen: map[string]bool{}, ghosts: con.Ghosts}
	func() {
		defer func() {
			if r := recover(); r != nil {
				if _, ok := r.(encErr); ok {
					p.params = nil
					p.vars = nil
					return
				}
				panic(r)
			}
		}()
		for i, prm := range fn.Params {
			p.params = append(p.params, e.planValue(p, entry, fr.params[i].T, prm.Type(), "p"+strconv.Itoa(i), 3))
		}
	}()
	p.nlits = len(e.B.strOrder)
	return p
}

func (e *Enc) planValue(p *ReplayPlan, st *State, term Term, t types.Type, path string, depth int) *rnode {
	n := &rnode{typ: t, term: term, path: path}
	bad := func(f string, a ...any) *rnode {
		n.kind = "unsupported"
		n.why = fmt.Sprintf(f, a...)
		return n
	}
	if depth < 0 {
		return bad("nesting too deep at %s", path)
	}
	switch u := t.Underlying().(type) {
	case *types.Basic:
		switch {
		case u.Info()&types.IsInteger != 0:
			n.kind = "int"
			if ii, ok := intInfoOf(t); ok {
				// cells the body never loads carry no range assumption yet
				p.typed = append(p.typed, ii.inRange(term))
			}
		case u.Info()&types.IsBoolean != 0:
			n.kind = "bool"
		case u.Info()&types.IsFloat != 0:
			n.kind = "float"
		case u.Info()&types.IsString != 0:
			n.kind = "string"
			p.want(path+".len", "(strlen "+term+")")
			for k, s := range e.B.strOrder {
				if k >= 96 {
					break
				}
				p.want(fmt.Sprintf("%s.lit%d", path, k), fmt.Sprintf("(= %s %s)", term, e.B.strLits[s]))
			}
			p.want(path+".empty", "(= "+term+" emptystr)")
		default:
			return bad("basic type %s", t)
		}
		p.want(path, term)
		return n
	case *types.Struct:
		n.kind = "struct"
		for i := 0; i < u.NumFields(); i++ {
			f := u.Field(i)
			n.fields = append(n.fields, e.planValue(p, st, e.B.structField(t, term, i), f.Type(), path+"."+f.Name(), depth-1))
		}
		return n
	case *types.Slice:
		n.kind = "slice"
		p.want(path+".len", "(slen "+term+")")
		p.want(path+".nil", "(= (sarr "+term+") 0)")
		p.small = append(p.small, "(slen "+term+")")
		h := e.get(st, e.B.heapName(u.Elem()), e.B.heapSort(u.Elem()))
		for i := 0; i < replayMaxElems; i++ {
			et := fmt.Sprintf("(select (select %s (sarr %s)) (+ (soff %s) %d))", h, term, term, i)
			n.elems = append(n.elems, e.planValue(p, st, et, u.Elem(), fmt.Sprintf("%s[%d]", path, i), depth-1))
		}
		return n
	case *types.Pointer:
		n.kind = "ptr"
		p.want(path+".nil", "(= "+term+" nilptr)")
		h := e.get(st, e.B.heapName(u.Elem()), e.B.heapSort(u.Elem()))
		pt := fmt.Sprintf("(select (select %s (pref %s)) (pidx %s))", h, term, term)
		n.ptee = e.planValue(p, st, pt, u.Elem(), "*"+path, depth-1)
		return n
	case *types.Interface:
		n.kind = "iface"
		p.want(path+".ity", "(ity "+term+")")
		p.want(path+".ival", "(ival "+term+")")
		e.B.declTop("box.Flt", "(declare-fun box.Flt (Int) Flt)")
		p.want(path+".flt", "(box.Flt (ival "+term+"))")
		return n
	}
	return bad("type %s at %s", t, path)
}

// ---------------------------------------------------------------------------
// SMT value parsing
// ---------------------------------------------------------------------------

type sx struct {
	atom string
	list []*sx
}

func parseSx(s string) *sx {
	toks := tokenizeSx(s)
	pos := 0
	var rd func() *sx
	rd = func() *sx {
		if pos >= len(toks) {
			return &sx{}
		}
		t := toks[pos]
		pos++
		if t == "(" {
			n := &sx{list: []*sx{}}
			for pos < len(toks) && toks[pos] != ")" {
				n.list = append(n.list, rd())
			}
			pos++
			return n
		}
		return &sx{atom: t}
	}
	return rd()
}

func tokenizeSx(s string) []string {
	var out []string
	cur := ""
	flush := func() {
		if cur != "" {
			out = append(out, cur)
			cur = ""
		}
	}
	for _, c := range s {
		switch c {
		case '(', ')':
			flush()
			out = append(out, string(c))
		case ' ', '\n', '\t', '\r':
			flush()
		default:
			cur += string(c)
		}
	}
	flush()
	return out
}

func sxRat(x *sx) (*big.Rat, bool) {
	if x.list == nil {
		r, ok := new(big.Rat).SetString(x.atom)
		return r, ok
	}
	if len(x.list) == 2 && x.list[0].atom == "-" {
		r, ok := sxRat(x.list[1])
		if !ok {
			return nil, false
		}
		return r.Neg(r), true
	}
	if len(x.list) == 3 && x.list[0].atom == "/" {
		a, ok1 := sxRat(x.list[1])
		b, ok2 := sxRat(x.list[2])
		if !ok1 || !ok2 || b.Sign() == 0 {
			return nil, false
		}
		return a.Quo(a, b), true
	}
	if len(x.list) == 2 && x.list[0].atom == "to_real" {
		return sxRat(x.list[1])
	}
	return nil, false
}

func smtInt(v string) (*big.Int, bool) {
	r, ok := sxRat(parseSx(v))
	if !ok || !r.IsInt() {
		return nil, false
	}
	return new(big.Int).Set(r.Num()), true
}

// ---------------------------------------------------------------------------
// model -> Go expressions and SMT pins
// ---------------------------------------------------------------------------

type concretizer struct {
	plan    *ReplayPlan
	model   map[string]string
	imports map[string]string // path -> name
	pkg     *types.Package
	pins    []func(e *Enc, st *State) Term // evaluated in the fresh encoder
	notes   []string
	fail    string
}

func (c *concretizer) get(name string) (string, bool) {
	v, ok := c.model["~"+name]
	return strings.TrimSpace(v), ok && strings.TrimSpace(v) != ""
}

func (c *concretizer) bad(f string, a ...any) string {
	if c.fail == "" {
		c.fail = fmt.Sprintf(f, a...)
	}
	return "nil"
}

func (c *concretizer) goType(t types.Type) string {
	return types.TypeString(t, func(p *types.Package) string {
		if p == c.pkg {
			return ""
		}
		c.imports[p.Path()] = p.Name()
		return p.Name()
	})
}

// accessible: every struct field reachable by a composite literal from inside
// package bloomsearch.
func (c *concretizer) accessible(t types.Type) bool {
	if n, ok := t.(*types.Named); ok && n.Obj().Pkg() != nil && n.Obj().Pkg() != c.pkg {
		if st, ok := n.Underlying().(*types.Struct); ok {
			for i := 0; i < st.NumFields(); i++ {
				if !st.Field(i).Exported() {
					return false
				}
			}
		}
	}
	return true
}

// value returns a Go expression for node n and, through c.pins, the SMT facts
// that pin term to exactly that value.
func (c *concretizer) value(n *rnode, term func(e *Enc, st *State) Term) string {
	switch n.kind {
	case "int":
		v, ok := c.get(n.path)
		bi, ok2 := smtInt(v)
		if !ok || !ok2 {
			return c.bad("no integer value for %s (%q)", n.path, v)
		}
		c.pins = append(c.pins, func(e *Enc, st *State) Term { return "(= " + term(e, st) + " " + intLit(bi) + ")" })
		return fmt.Sprintf("%s(%s)", c.goType(n.typ), bi.String())
	case "bool":
		v, ok := c.get(n.path)
		if !ok || (v != "true" && v != "false") {
			return c.bad("no boolean value for %s (%q)", n.path, v)
		}
		c.pins = append(c.pins, func(e *Enc, st *State) Term { return "(= " + term(e, st) + " " + v + ")" })
		return fmt.Sprintf("%s(%s)", c.goType(n.typ), v)
	case "float":
		v, ok := c.get(n.path)
		if !ok {
			return c.bad("no float value for %s", n.path)
		}
		goExpr, smt, ok := c.floatValue(v, n.typ)
		if !ok {
			return c.bad("float value %q for %s", v, n.path)
		}
		c.pins = append(c.pins, func(e *Enc, st *State) Term { return "(= " + term(e, st) + " " + smt + ")" })
		return fmt.Sprintf("%s(%s)", c.goType(n.typ), goExpr)
	case "string":
		s, ok := c.stringValue(n.path)
		if !ok {
			return c.bad("string %s is not one of the program's literals and has no usable length", n.path)
		}
		c.pins = append(c.pins, func(e *Enc, st *State) Term { return "(= " + term(e, st) + " " + e.B.strLit(s) + ")" })
		return fmt.Sprintf("%s(%s)", c.goType(n.typ), strconv.Quote(s))
	case "struct":
		if !c.accessible(n.typ) {
			return c.bad("struct %s has unexported fields of another package", n.typ)
		}
		st := n.typ.Underlying().(*types.Struct)
		var parts []string
		for i, f := range n.fields {
			i := i
			ft := func(e *Enc, s *State) Term { return e.B.structField(n.typ, term(e, s), i) }
			parts = append(parts, st.Field(i).Name()+": "+c.value(f, ft))
		}
		return fmt.Sprintf("%s{%s}", c.goType(n.typ), strings.Join(parts, ", "))
	case "slice":
		isNil, _ := c.get(n.path + ".nil")
		lv, ok := c.get(n.path + ".len")
		ln, ok2 := smtInt(lv)
		if !ok || !ok2 {
			return c.bad("no length for %s", n.path)
		}
		if ln.Cmp(big.NewInt(replayMaxElems)) > 0 {
			return c.bad("slice %s has %s elements in the model (replay reads at most %d)", n.path, ln, replayMaxElems)
		}
		L := int(ln.Int64())
		c.pins = append(c.pins, func(e *Enc, st *State) Term { return fmt.Sprintf("(= (slen %s) %d)", term(e, st), L) })
		if isNil == "true" && L == 0 {
			c.pins = append(c.pins, func(e *Enc, st *State) Term { return "(= (sarr " + term(e, st) + ") 0)" })
			return fmt.Sprintf("%s(nil)", c.goType(n.typ))
		}
		c.pins = append(c.pins, func(e *Enc, st *State) Term { return "(not (= (sarr " + term(e, st) + ") 0))" })
		elemT := n.typ.Underlying().(*types.Slice).Elem()
		var parts []string
		for i := 0; i < L; i++ {
			i := i
			et := func(e *Enc, st *State) Term {
				h := e.get(st, e.B.heapName(elemT), e.B.heapSort(elemT))
				t := term(e, st)
				return fmt.Sprintf("(select (select %s (sarr %s)) (+ (soff %s) %d))", h, t, t, i)
			}
			parts = append(parts, c.value(n.elems[i], et))
		}
		return fmt.Sprintf("%s{%s}", c.goType(n.typ), strings.Join(parts, ", "))
	case "ptr":
		isNil, ok := c.get(n.path + ".nil")
		if !ok {
			return c.bad("no value for pointer %s", n.path)
		}
		if isNil == "true" {
			c.pins = append(c.pins, func(e *Enc, st *State) Term { return "(= " + term(e, st) + " nilptr)" })
			return fmt.Sprintf("(%s)(nil)", c.goType(n.typ))
		}
		c.pins = append(c.pins, func(e *Enc, st *State) Term { return "(not (= " + term(e, st) + " nilptr))" })
		elemT := n.typ.Underlying().(*types.Pointer).Elem()
		pt := func(e *Enc, st *State) Term {
			h := e.get(st, e.B.heapName(elemT), e.B.heapSort(elemT))
			t := term(e, st)
			return fmt.Sprintf("(select (select %s (pref %s)) (pidx %s))", h, t, t)
		}
		inner := c.value(n.ptee, pt)
		return fmt.Sprintf("func() %s { v := %s; return &v }()", c.goType(n.typ), inner)
	case "iface":
		return c.ifaceValue(n, term)
	}
	return c.bad("%s", n.why)
}

func (c *concretizer) floatValue(v string, t types.Type) (goExpr, smt string, ok bool) {
	x := parseSx(v)
	switch {
	case x.atom == "pinf":
		return "math.Inf(1)", "pinf", true
	case x.atom == "ninf":
		return "math.Inf(-1)", "ninf", true
	case x.atom == "fnan":
		return "math.NaN()", "fnan", true
	case len(x.list) == 2 && x.list[0].atom == "fin":
		r, ok := sxRat(x.list[1])
		if !ok {
			return "", "", false
		}
		f, exact := r.Float64()
		if b, isB := t.Underlying().(*types.Basic); isB && b.Kind() == types.Float32 {
			f32, ex := r.Float32()
			f, exact = float64(f32), ex
		}
		if math.IsInf(f, 0) {
			return "", "", false
		}
		if !exact {
			c.notes = append(c.notes, fmt.Sprintf("model real %s rounded to the nearest float %v", r.RatString(), f))
		}
		fr := new(big.Rat).SetFloat64(f)
		return fmt.Sprintf("math.Float64frombits(%#x)", math.Float64bits(f)), "(fin " + ratLit(fr) + ")", true
	}
	return "", "", false
}

func ratLit(r *big.Rat) string {
	num := new(big.Int).Abs(r.Num())
	s := num.String() + ".0"
	if !r.IsInt() {
		s = "(/ " + num.String() + ".0 " + r.Denom().String() + ".0)"
	}
	if r.Sign() < 0 {
		s = "(- " + s + ")"
	}
	return s
}

func (c *concretizer) stringValue(path string) (string, bool) {
	if v, _ := c.get(path + ".empty"); v == "true" {
		return "", true
	}
	for k := 0; k < c.plan.nlits && k < 96; k++ {
		if v, _ := c.get(fmt.Sprintf("%s.lit%d", path, k)); v == "true" {
			return c.plan.b.strOrder[k], true
		}
	}
	lv, ok := c.get(path + ".len")
	ln, ok2 := smtInt(lv)
	if !ok || !ok2 || ln.Sign() <= 0 || ln.Cmp(big.NewInt(4096)) > 0 {
		return "", false
	}
	// an abstract string different from every literal: a filler of that length
	// (distinct abstract strings of equal length get distinct fillers)
	v, _ := c.get(path)
	h := 0
	for _, ch := range v {
		h = (h*31 + int(ch)) % 26
	}
	s := strings.Repeat(string(rune('a'+h)), int(ln.Int64()))
	for _, lit := range c.plan.b.strOrder {
		if lit == s {
			return "", false
		}
	}
	c.notes = append(c.notes, fmt.Sprintf("%s: abstract string, replayed as %q", path, s))
	return s, true
}

func (c *concretizer) ifaceValue(n *rnode, term func(e *Enc, st *State) Term) string {
	iv, ok := c.get(n.path + ".ity")
	id, ok2 := smtInt(iv)
	if !ok || !ok2 {
		return c.bad("no dynamic type for %s", n.path)
	}
	if id.Sign() == 0 {
		c.pins = append(c.pins, func(e *Enc, st *State) Term { return "(= (ity " + term(e, st) + ") 0)" })
		return "nil"
	}
	if _, empty := n.typ.Underlying().(*types.Interface); !empty || n.typ.Underlying().(*types.Interface).NumMethods() > 0 {
		return c.bad("non-nil value of interface type %s cannot be synthesised", n.typ)
	}
	k := int(id.Int64())
	if !id.IsInt64() || k < 1 || k > len(c.plan.b.typeList) {
		return c.bad("%s: dynamic type id %s is not a type of the program", n.path, id)
	}
	dt := c.plan.b.typeList[k-1]
	b, isBasic := dt.Underlying().(*types.Basic)
	if !isBasic {
		return c.bad("%s: dynamic type %s", n.path, dt)
	}
	tid := func(e *Enc) int { return e.B.typeID(dt) }
	switch {
	case b.Info()&types.IsInteger != 0:
		pv, _ := c.get(n.path + ".ival")
		bi, ok := smtInt(pv)
		if !ok {
			return c.bad("no payload for %s", n.path)
		}
		c.pins = append(c.pins, func(e *Enc, st *State) Term {
			return fmt.Sprintf("(= %s (mkiface %d %s))", term(e, st), tid(e), intLit(bi))
		})
		return fmt.Sprintf("any(%s(%s))", c.goType(dt), bi)
	case b.Info()&types.IsFloat != 0:
		fv, _ := c.get(n.path + ".flt")
		goExpr, smt, ok := c.floatValue(fv, dt)
		if !ok {
			return c.bad("no float payload for %s (%q)", n.path, fv)
		}
		c.pins = append(c.pins, func(e *Enc, st *State) Term {
			e.B.declTop("box.Flt", "(declare-fun box.Flt (Int) Flt)")
			t := term(e, st)
			return fmt.Sprintf("(and (= (ity %s) %d) (= (box.Flt (ival %s)) %s))", t, tid(e), t, smt)
		})
		return fmt.Sprintf("any(%s(%s))", c.goType(dt), goExpr)
	case b.Info()&types.IsBoolean != 0, b.Info()&types.IsString != 0:
		// payload abstract: any value of that type will do for the kinds of
		// clause that only look at the dynamic type
		c.pins = append(c.pins, func(e *Enc, st *State) Term { return fmt.Sprintf("(= (ity %s) %d)", term(e, st), tid(e)) })
		if b.Info()&types.IsBoolean != 0 {
			return fmt.Sprintf("any(%s(false))", c.goType(dt))
		}
		return fmt.Sprintf("any(%s(\"x\"))", c.goType(dt))
	}
	return c.bad("%s: dynamic type %s", n.path, dt)
}

// ---------------------------------------------------------------------------
// observed results: Go printing code and SMT pins
// ---------------------------------------------------------------------------

// obsPrinter emits Go statements printing every scalar leaf of expression x
// (type t) as "VERIF-R <path> <value>".
func obsPrinter(sb *strings.Builder, x string, t types.Type, path string, depth int) bool {
	if depth < 0 {
		return false
	}
	switch u := t.Underlying().(type) {
	case *types.Basic:
		switch {
		case u.Info()&types.IsInteger != 0:
			fmt.Fprintf(sb, "\tfmt.Printf(\"VERIF-R %s %%d\\n\", %s)\n", path, x)
		case u.Info()&types.IsBoolean != 0:
			fmt.Fprintf(sb, "\tfmt.Printf(\"VERIF-R %s %%v\\n\", bool(%s))\n", path, x)
		case u.Info()&types.IsFloat != 0:
			fmt.Fprintf(sb, "\tfmt.Printf(\"VERIF-R %s %%d\\n\", math.Float64bits(float64(%s)))\n", path, x)
		case u.Info()&types.IsString != 0:
			fmt.Fprintf(sb, "\tfmt.Printf(\"VERIF-R %s %%q\\n\", string(%s))\n", path, x)
		default:
			return false
		}
		return true
	case *types.Struct:
		for i := 0; i < u.NumFields(); i++ {
			f := u.Field(i)
			switch f.Type().Underlying().(type) {
			case *types.Basic, *types.Struct, *types.Interface, *types.Pointer:
				if !obsPrinter(sb, x+"."+f.Name(), f.Type(), path+"."+f.Name(), depth-1) {
					return false
				}
			}
		}
		return true
	case *types.Interface, *types.Pointer, *types.Map, *types.Chan, *types.Signature:
		fmt.Fprintf(sb, "\tfmt.Printf(\"VERIF-R %s %%v\\n\", %s == nil)\n", path, x)
		return true
	case *types.Slice:
		fmt.Fprintf(sb, "\tfmt.Printf(\"VERIF-R %s.len %%d\\n\", len(%s))\n", path, x)
		return true
	}
	return false
}

// obsPins turns the printed observations into SMT facts about result term r.
func (e *Enc) obsPins(obs map[string]string, r Term, t types.Type, path string, depth int, out *[]Term) {
	if depth < 0 {
		return
	}
	switch u := t.Underlying().(type) {
	case *types.Basic:
		v, ok := obs[path]
		if !ok {
			return
		}
		switch {
		case u.Info()&types.IsInteger != 0:
			if bi, ok := new(big.Int).SetString(v, 10); ok {
				*out = append(*out, "(= "+r+" "+intLit(bi)+")")
			}
		case u.Info()&types.IsBoolean != 0:
			*out = append(*out, "(= "+r+" "+v+")")
		case u.Info()&types.IsFloat != 0:
			bits, err := strconv.ParseUint(v, 10, 64)
			if err != nil {
				return
			}
			f := math.Float64frombits(bits)
			switch {
			case math.IsNaN(f):
				*out = append(*out, "(= "+r+" fnan)")
			case math.IsInf(f, 1):
				*out = append(*out, "(= "+r+" pinf)")
			case math.IsInf(f, -1):
				*out = append(*out, "(= "+r+" ninf)")
			default:
				*out = append(*out, "(= "+r+" (fin "+ratLit(new(big.Rat).SetFloat64(f))+"))")
			}
		case u.Info()&types.IsString != 0:
			if s, err := strconv.Unquote(v); err == nil {
				*out = append(*out, "(= "+r+" "+e.B.strLit(s)+")")
			}
		}
	case *types.Struct:
		for i := 0; i < u.NumFields(); i++ {
			f := u.Field(i)
			e.obsPins(obs, e.B.structField(t, r, i), f.Type(), path+"."+f.Name(), depth-1, out)
		}
	case *types.Interface:
		if v, ok := obs[path]; ok {
			if v == "true" {
				*out = append(*out, "(= (ity "+r+") 0)")
			} else {
				*out = append(*out, "(not (= (ity "+r+") 0))")
			}
		}
	case *types.Pointer:
		if v, ok := obs[path]; ok {
			if v == "true" {
				*out = append(*out, "(= "+r+" nilptr)")
			} else {
				*out = append(*out, "(not (= "+r+" nilptr))")
			}
		}
	case *types.Map, *types.Chan:
		if v, ok := obs[path]; ok {
			if v == "true" {
				*out = append(*out, "(= "+r+" 0)")
			} else {
				*out = append(*out, "(not (= "+r+" 0))")
			}
		}
	case *types.Slice:
		if v, ok := obs[path+".len"]; ok {
			*out = append(*out, "(= (slen "+r+") "+v+")")
		}
	}
}

// ---------------------------------------------------------------------------
// driver
// ---------------------------------------------------------------------------

type ReplayOutcome struct {
	Status   string            `json:"status"` // confirmed | not-reproduced | unsupported | error
	Reason   string            `json:"reason,omitempty"`
	Call     string            `json:"call,omitempty"`
	GoTest   string            `json:"go_test,omitempty"`
	Observed map[string]string `json:"observed,omitempty"`
	Panic    string            `json:"panic,omitempty"`
	Notes    []string          `json:"notes,omitempty"`
	Check    map[string]string `json:"contract_evaluation,omitempty"`
}

var safetyKinds = map[string]bool{"index": true, "slice": true, "nil-deref": true, "div": true, "type-assert": true,
	"makeslice": true, "shift": true, "nil-map": true, "conversion": true, "bounds": true, "send-closed": true}

// tryReplay runs the real function on the failing model.
func tryReplay(l *Loaded, cs *Contracts, prop string, oc *oblOutcome) *ReplayOutcome {
	out := &ReplayOutcome{}
	plan := oc.FR.Plan
	unsupported := func(f string, a ...any) *ReplayOutcome {
		out.Status = "unsupported"
		out.Reason = fmt.Sprintf(f, a...)
		return out
	}
	if plan == nil || plan.params == nil && len(plan.fn.Params) > 0 {
		return unsupported("no replay plan for %s", oc.FR.Name)
	}
	if oc.R.Status != "sat" || len(oc.R.Model) == 0 {
		return unsupported("the solver gave no model")
	}
	fn := plan.fn
	if fn.Parent() != nil || len(fn.FreeVars) > 0 {
		return unsupported("closures are not replayed")
	}
	if len(fn.TypeArgs()) > 0 || fn.Signature.TypeParams() != nil || fn.Signature.RecvTypeParams() != nil {
		return unsupported("generic functions are not replayed")
	}
	kind := oc.O.Kind
	isEnsures := kind == "ensures"
	con := plan.con
	if isEnsures && (con.HasModifies || len(con.Entry) > 0 || len(con.Exit) > 0) {
		return unsupported("ensures clauses are replayed only for functions that modify nothing (post-state = pre-state)")
	}
	if !isEnsures && !safetyKinds[kind] {
		return unsupported("obligation kind %q is internal to the proof (not observable from a call)", kind)
	}

	// solvers pick arbitrary (huge) slice lengths: ask again for a model whose
	// slices are short enough to be written down
	model := oc.R.Model
	if len(plan.small)+len(plan.typed) > 0 {
		for _, bound := range []int{2, replayMaxElems} {
			q := oc.FR.Builder.script(oc.O.Pos) + "(assert (not " + oc.O.Goal + "))\n"
			for _, t := range plan.small {
				q += fmt.Sprintf("(assert (<= %s %d))\n", t, bound)
			}
			for _, t := range plan.typed {
				q += "(assert " + t + ")\n"
			}
			r := solve(prop+"_replay_small_"+oc.O.Name, q, oc.O.Model, 10, true, false)
			if r.Status == "sat" && len(r.Model) > 0 {
				model = r.Model
				break
			}
		}
	}
	c := &concretizer{plan: plan, model: model, imports: map[string]string{}, pkg: fn.Pkg.Pkg}
	var args []string
	for i, n := range plan.params {
		i := i
		args = append(args, c.value(n, func(e *Enc, st *State) Term { return "p." + sanitize(fn.Params[i].Name()) }))
	}
	if c.fail != "" {
		return unsupported("%s", c.fail)
	}
	out.Notes = c.notes

	// the call
	var call string
	sig := fn.Signature
	rest := args
	if sig.Recv() != nil {
		call = "(" + args[0] + ")." + fn.Name()
		rest = args[1:]
	} else {
		call = fn.Name()
	}
	if sig.Variadic() && len(rest) > 0 {
		rest = append(append([]string{}, rest[:len(rest)-1]...), rest[len(rest)-1]+"...")
	}
	call += "(" + strings.Join(rest, ", ") + ")"
	out.Call = call

	// the test
	var body strings.Builder
	nres := sig.Results().Len()
	var rnames []string
	for i := 0; i < nres; i++ {
		rnames = append(rnames, fmt.Sprintf("r%d", i))
	}
	body.WriteString("\tdefer func() {\n\t\tif r := recover(); r != nil {\n\t\t\tfmt.Printf(\"VERIF-PANIC %v\\n\", r)\n\t\t}\n\t}()\n")
	if nres > 0 {
		fmt.Fprintf(&body, "\t%s := %s\n", strings.Join(rnames, ", "), call)
	} else {
		fmt.Fprintf(&body, "\t%s\n", call)
	}
	for i := 0; i < nres; i++ {
		if !obsPrinter(&body, rnames[i], sig.Results().At(i).Type(), fmt.Sprintf("r%d", i), 3) {
			fmt.Fprintf(&body, "\t_ = %s\n", rnames[i])
		}
	}
	body.WriteString("\tfmt.Println(\"VERIF-DONE\")\n")
	imports := map[string]string{"fmt": "fmt", "testing": "testing", "math": "math"}
	for p, n := range c.imports {
		imports[p] = n
	}
	var imps []string
	for p := range imports {
		imps = append(imps, p)
	}
	sort.Strings(imps)
	var src strings.Builder
	fmt.Fprintf(&src, "package %s\n\n// Generated by vc: replay of the solver's counterexample for\n//   %s\n// clause: %s\n\nimport (\n", fn.Pkg.Pkg.Name(), oc.O.Name, strings.ReplaceAll(oc.O.Src, "\n", " "))
	for _, p := range imps {
		fmt.Fprintf(&src, "\t%q\n", p)
	}
	src.WriteString(")\n\nvar _ = math.Pi\n\nfunc TestVerifReplayCounterexample(t *testing.T) {\n")
	src.WriteString(body.String())
	src.WriteString("}\n")

	dir := filepath.Join(outDir(), "replay", prop)
	os.MkdirAll(dir, 0o755)
	testFile := filepath.Join(dir, sanitize(oc.O.Name)+"_replay_test.go")
	os.WriteFile(testFile, []byte(src.String()), 0o644)
	out.GoTest = testFile

	stdout, err := runOverlayTest(testFile)
	obs := map[string]string{}
	done := false
	for _, ln := range strings.Split(stdout, "\n") {
		ln = strings.TrimSpace(ln)
		switch {
		case strings.HasPrefix(ln, "VERIF-PANIC "):
			out.Panic = strings.TrimPrefix(ln, "VERIF-PANIC ")
		case strings.HasPrefix(ln, "VERIF-R "):
			f := strings.SplitN(strings.TrimPrefix(ln, "VERIF-R "), " ", 2)
			if len(f) == 2 {
				obs[f[0]] = f[1]
			}
		case ln == "VERIF-DONE":
			done = true
		}
	}
	out.Observed = obs
	if out.Panic == "" && !done {
		out.Status = "error"
		tail := stdout
		if len(tail) > 1500 {
			tail = tail[len(tail)-1500:]
		}
		out.Reason = fmt.Sprintf("replay test did not run to completion (%v): %s", err, tail)
		return out
	}
	if !isEnsures {
		if out.Panic != "" {
			out.Status = "confirmed"
			out.Reason = "the real function panics on the model's input: " + out.Panic
		} else {
			out.Status = "not-reproduced"
			out.Reason = "the real function returned normally on the model's input"
		}
		return out
	}
	if out.Panic != "" {
		out.Status = "confirmed"
		out.Reason = "the real function panics on the model's input instead of satisfying the clause: " + out.Panic
		return out
	}

	// evaluate the clause on (inputs, observed results) with a fresh encoder
	var clauseIdx = -1
	for k := range con.Ensures {
		if fmt.Sprintf("%s/ensures#%d", oc.FR.Name, k+1) == oc.O.Name {
			clauseIdx = k
		}
	}
	if clauseIdx < 0 {
		return unsupported("cannot locate clause of %s", oc.O.Name)
	}
	var admissible, holds SolveResult
	var evalErr string
	afterRequires = func(e *Enc, fr *Frame, entry *State, mkctx func(*State, []Val, string) *SpecCtx) {
		for _, pin := range c.pins {
			e.B.assume(pin(e, entry))
		}
		for _, g := range plan.ghosts {
			if v, ok := model["ghost "+g.Name]; ok && g.Type != "str" {
				e.B.assume("(= g." + sanitize(g.Name) + " " + v + ")")
			}
		}
		// the post-state is the pre-state (the function modifies nothing)
		var rets []Val
		var rpins []Term
		for i := 0; i < nres; i++ {
			rt := sig.Results().At(i).Type()
			r := e.B.declConst(fmt.Sprintf("res%d", i), e.B.sortOf(rt))
			e.assumeWF(r, rt, entry)
			rets = append(rets, Val{T: r, Typ: rt})
			e.obsPins(obs, r, rt, fmt.Sprintf("r%d", i), 3, &rpins)
		}
		for _, rp := range rpins {
			e.B.assume(rp)
		}
		g := e.compileBool(mkctx(entry, rets, "replayed ensures"), con.Ensures[clauseIdx].Expr)
		q := e.B.script(e.B.pos())
		admissible = solve(prop+"_replay_adm_"+oc.O.Name, q, nil, 10, true, false)
		holds = solve(prop+"_replay_eval_"+oc.O.Name, q+"(assert "+g+")\n", nil, 10, false, false)
	}
	func() {
		defer func() {
			afterRequires = nil
			if r := recover(); r != nil {
				evalErr = fmt.Sprint(r)
			}
		}()
		res := verifyFunction(l, cs, fn, con)
		if res.Err != "" {
			evalErr = res.Err
		}
	}()
	if evalErr != "" {
		out.Status = "error"
		out.Reason = "evaluating the clause on the observed results: " + evalErr
		return out
	}
	out.Check = map[string]string{"inputs_and_requires": admissible.Status, "inputs_requires_results_and_clause": holds.Status}
	switch {
	case admissible.Status == "unsat":
		out.Status = "not-reproduced"
		out.Reason = "after concretisation the input no longer satisfies the preconditions"
	case holds.Status == "unsat" && admissible.Status == "sat":
		out.Status = "confirmed"
		out.Reason = "the real function's results on the model's input contradict the clause"
	case holds.Status == "sat":
		out.Status = "not-reproduced"
		out.Reason = "the real function's results on the model's input satisfy the clause (model spurious for the real code, or rounded away)"
	default:
		out.Status = "not-reproduced"
		out.Reason = "the solver could not evaluate the clause on the observed results"
	}
	return out
}

// runOverlayTest compiles the repository's package with the generated test
// added through an overlay and runs only that test.
func runOverlayTest(testFile string) (string, error) {
	repo := repoDir()
	ov := map[string]any{"Replace": map[string]string{filepath.Join(repo, "zz_verif_replay_test.go"): testFile}}
	b, _ := json.Marshal(ov)
	ovFile := testFile + ".overlay.json"
	os.WriteFile(ovFile, b, 0o644)
	defer os.Remove(ovFile)
	ctx, cancel := context.WithTimeout(context.Background(), 300*time.Second)
	defer cancel()
	sh := fmt.Sprintf("ulimit -v 16000000; exec go test -tags verif -overlay %s -vet=off -count=1 -timeout 60s -run '^TestVerifReplayCounterexample$' -v .", ovFile)
	cmd := exec.CommandContext(ctx, "sh", "-c", sh)
	cmd.Dir = repo
	var buf bytes.Buffer
	cmd.Stdout = &buf
	cmd.Stderr = &buf
	err := cmd.Run()
	return buf.String(), err
}
