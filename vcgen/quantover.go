package main

import (
	"fmt"
	"go/types"
	"strings"
)

// compileQuantOver compiles "forall x in s :: P(x)" / "exists x in s :: P(x)":
// x ranges over the elements of slice s. The bound variable of the SMT
// quantifier is the element's absolute index in the backing array, and the
// backing array is named, so the instantiation trigger is the plain array read
// "(select A a)" — no arithmetic inside the pattern. This is what lets the
// solvers chain such facts through append's and copy's element axioms.
func (e *Enc) compileQuantOver(c *SpecCtx, x *Expr) CE {
	s := e.compile(c, x.Args[1])
	if s.Typ != nil {
		if _, ok := s.Typ.Underlying().(*types.Pointer); ok {
			s = e.deref(c, s)
		}
	}
	sl, ok := s.Typ.Underlying().(*types.Slice)
	if !ok {
		fail("%s: 'in' needs a slice, got %v", c.what, s.Typ)
	}
	elem := sl.Elem()
	h := e.get(c.st, e.B.heapName(elem), e.B.heapSort(elem))
	// name the slice and its backing array unless they depend on an enclosing
	// bound variable (a top-level definition cannot mention one)
	sv := s.T
	arr := fmt.Sprintf("(select %s (sarr %s))", h, sv)
	if !strings.Contains(s.T, "q.") {
		sv = e.B.define("qs", "Slice", s.T)
		arr = e.B.define("qelems", "(Array Int "+e.B.sortOf(elem)+")", fmt.Sprintf("(select %s (sarr %s))", h, sv))
	}
	a := e.B.freshName("q." + x.Var)
	e.noteBound(a, "Int")
	ptr := fmt.Sprintf("(mkptr (sarr %s) %s)", sv, a)
	el := CE{T: fmt.Sprintf("(select %s %s)", arr, a), Typ: elem, P: &Place{Kind: PDeref, Ptr: ptr, Typ: elem}}
	el = e.typedRead(c, el)
	body := e.compileBool(c.bindName(x.Var, el), x.Args[0])
	rng := fmt.Sprintf("(and (<= (soff %s) %s) (< %s (+ (soff %s) (slen %s))))", sv, a, a, sv, sv)
	if x.Op == "forall" {
		return CE{T: fmt.Sprintf("(forall ((%s Int)) (! (=> %s %s) :pattern ((select %s %s))))", a, rng, body, arr, a), Typ: tBool}
	}
	return CE{T: fmt.Sprintf("(exists ((%s Int)) (and %s %s))", a, rng, body), Typ: tBool}
}
