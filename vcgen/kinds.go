package main

import (
	"fmt"
	"go/types"
	"strings"
)

// reflectKinds gives reflect.Kind's numeric values for the predeclared numeric
// types (reflect/type.go: Int=2 ... Uintptr=12, Float32=13, Float64=14).
var reflectKinds = []struct {
	kind types.BasicKind
	val  int
}{
	{types.Bool, 1}, {types.Int, 2}, {types.Int8, 3}, {types.Int16, 4}, {types.Int32, 5}, {types.Int64, 6},
	{types.Uint, 7}, {types.Uint8, 8}, {types.Uint16, 9}, {types.Uint32, 10}, {types.Uint64, 11}, {types.Uintptr, 12},
	{types.Float32, 13}, {types.Float64, 14}, {types.String, 24},
}

// declKindOf declares kindof : dynamic type id -> reflect.Kind, fixed on the
// predeclared types and unconstrained on every other type (named numeric types
// such as time.Duration have a numeric kind without being any of them).
func (e *Enc) declKindOf() {
	var sb strings.Builder
	sb.WriteString("(declare-fun kindof (Int) Int)")
	for _, k := range reflectKinds {
		fmt.Fprintf(&sb, "\n(assert (= (kindof %d) %d))", e.B.typeID(types.Typ[k.kind]), k.val)
	}
	sb.WriteString("\n(assert (forall ((t Int)) (! (and (>= (kindof t) 0) (<= (kindof t) 26)) :pattern ((kindof t)))))")
	e.B.declTop("kindof", sb.String())
}

// ifacePayloadWF: the integer payload of an interface value lies in the range
// of its dynamic type's kind (true of every real value).
func (e *Enc) ifacePayloadWF(v Term) Term {
	e.declKindOf()
	k := "(kindof (ity " + v + "))"
	p := "(ival " + v + ")"
	rng := func(kinds []int, lo, hi string) string {
		var ks []string
		for _, x := range kinds {
			ks = append(ks, fmt.Sprintf("(= %s %d)", k, x))
		}
		return fmt.Sprintf("(=> (or %s) (and (<= %s %s) (<= %s %s)))", strings.Join(ks, " "), lo, p, p, hi)
	}
	return and(
		rng([]int{2, 6}, "(- 9223372036854775808)", "9223372036854775807"),
		rng([]int{3}, "(- 128)", "127"),
		rng([]int{4}, "(- 32768)", "32767"),
		rng([]int{5}, "(- 2147483648)", "2147483647"),
		rng([]int{7, 11, 12}, "0", "18446744073709551615"),
		rng([]int{8}, "0", "255"),
		rng([]int{9}, "0", "65535"),
		rng([]int{10}, "0", "4294967295"),
	)
}
