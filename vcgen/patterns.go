package main

import (
	"regexp"
	"sort"
)

// selectPatterns returns ":pattern" annotations for a universally quantified
// body: one per distinct term "(select A v)" where A is an atom (a named heap
// or ghost-map version) and v the bound variable. Quantified frame conditions
// such as "forall c :: sent(c) == old(sent(c))" are then instantiated exactly
// at the channels the proof talks about instead of being left to the solvers'
// model-based instantiation, which times out on them.
func selectPatterns(body, v string) []string {
	re := regexp.MustCompile(`\(select ([^\s()]+) ` + regexp.QuoteMeta(v) + `\)`)
	seen := map[string]bool{}
	var out []string
	for _, m := range re.FindAllString(body, -1) {
		if !seen[m] {
			seen[m] = true
			out = append(out, ":pattern ("+m+")")
		}
	}
	// applications of a specification function to the bound variable alone
	re2 := regexp.MustCompile(`\(sf\.[A-Za-z0-9_]+ ` + regexp.QuoteMeta(v) + `\)`)
	for _, m := range re2.FindAllString(body, -1) {
		if !seen[m] {
			seen[m] = true
			out = append(out, ":pattern ("+m+")")
		}
	}
	sort.Strings(out)
	return out
}
