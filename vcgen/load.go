package main

import (
	"fmt"
	"os"
	"sort"
	"strings"

	"golang.org/x/tools/go/packages"
	"golang.org/x/tools/go/ssa"
	"golang.org/x/tools/go/ssa/ssautil"
)

type Loaded struct {
	Prog  *ssa.Program
	Pkg   *ssa.Package
	PPkg  *packages.Package
	Funcs map[string]*ssa.Function // by contract name
}

func repoDir() string {
	if d := os.Getenv("VERIF_REPO"); d != "" {
		return d
	}
	return "/repo"
}

// goEnv puts go1.26.8 first on PATH (go/packages shells out to "go") and
// forces offline module resolution.
func goEnv() []string {
	env := os.Environ()
	path := os.Getenv("PATH")
	env = append(env, "PATH=/opt/veriftools/go1.26.8/bin:"+path,
		"GOFLAGS=-mod=mod", "GOPROXY=off", "GOSUMDB=off", "GOTOOLCHAIN=local")
	return env
}

func loadRepo() (*Loaded, error) {
	cfg := &packages.Config{
		Mode:       packages.LoadAllSyntax,
		Dir:        repoDir(),
		BuildFlags: []string{"-tags=verif"},
		Env:        goEnv(),
	}
	pkgs, err := packages.Load(cfg, ".")
	if err != nil {
		return nil, err
	}
	if len(pkgs) != 1 {
		return nil, fmt.Errorf("expected 1 package, got %d", len(pkgs))
	}
	if len(pkgs[0].Errors) > 0 {
		return nil, fmt.Errorf("package errors: %v", pkgs[0].Errors)
	}
	prog, spkgs := ssautil.AllPackages(pkgs, ssa.InstantiateGenerics|ssa.GlobalDebug)
	prog.Build()
	l := &Loaded{Prog: prog, Pkg: spkgs[0], PPkg: pkgs[0], Funcs: map[string]*ssa.Function{}}
	for fn := range ssautil.AllFunctions(prog) {
		if fn.Pkg != l.Pkg && (fn.Origin() == nil || fn.Origin().Pkg != l.Pkg) {
			// closures have Pkg set via parent
			p := fn
			for p.Parent() != nil {
				p = p.Parent()
			}
			if p.Pkg != l.Pkg && (p.Origin() == nil || p.Origin().Pkg != l.Pkg) {
				continue
			}
		}
		l.Funcs[contractName(fn)] = fn
	}
	return l, nil
}

// contractName is the name a function is addressed by in the contract file:
// f, (*T).m, T.m, f$1 (closures), f[error] (instances).
func contractName(fn *ssa.Function) string {
	if fn.Parent() != nil {
		// closure: parentName$N
		name := fn.Name() // e.g. handleFlush$1
		i := strings.LastIndex(name, "$") // nested closures: f$1$2's parent is f$1
		return contractName(fn.Parent()) + name[i:]
	}
	name := strings.ReplaceAll(fn.Name(), "github.com/danthegoodman1/bloomsearch.", "")
	if recv := fn.Signature.Recv(); recv != nil {
		t := recv.Type().String()
		// strip package path
		t = strings.ReplaceAll(t, "github.com/danthegoodman1/bloomsearch.", "")
		if strings.HasPrefix(t, "*") {
			return "(" + t + ")." + name
		}
		return t + "." + name
	}
	return name
}

func sortedFuncNames(l *Loaded) []string {
	var names []string
	for n := range l.Funcs {
		names = append(names, n)
	}
	sort.Strings(names)
	return names
}

func cmdDump(args []string) {
	l, err := loadRepo()
	if err != nil {
		fmt.Fprintln(os.Stderr, "TOOL-ERROR:", err)
		os.Exit(2)
	}
	if len(args) == 0 {
		for _, n := range sortedFuncNames(l) {
			fmt.Println(n)
		}
		return
	}
	for _, a := range args {
		fn := l.Funcs[a]
		if fn == nil {
			fmt.Println("not found:", a)
			continue
		}
		fn.WriteTo(os.Stdout)
	}
}

// cmdLoops lists the loops of a function with their ordinals (as used by
// "//@ loop <k> invariant"), header block, source line and header phis.
func cmdLoops(args []string) {
	l, err := loadRepo()
	if err != nil {
		fmt.Fprintln(os.Stderr, "TOOL-ERROR:", err)
		os.Exit(2)
	}
	for _, a := range args {
		fn := l.Funcs[a]
		if fn == nil {
			fmt.Println("not found:", a)
			continue
		}
		fr := &Frame{fn: fn}
		func() {
			defer func() { recover() }()
			fr.analyze()
		}()
		hs := make([]*ssa.BasicBlock, len(fr.loops))
		for h, li := range fr.loops {
			hs[li.Ordinal] = h
		}
		fmt.Println(a)
		for k, h := range hs {
			line := 0
			for _, ins := range h.Instrs {
				if ins.Pos().IsValid() {
					line = l.Prog.Fset.Position(ins.Pos()).Line
					break
				}
			}
			if line == 0 {
				for b := range fr.loops[h].Blocks {
					for _, ins := range b.Instrs {
						if ins.Pos().IsValid() {
							if ln := l.Prog.Fset.Position(ins.Pos()).Line; line == 0 || ln < line {
								line = ln
							}
						}
					}
				}
			}
			var phis []string
			for _, ins := range h.Instrs {
				if p, ok := ins.(*ssa.Phi); ok {
					phis = append(phis, p.Comment)
				}
			}
			fmt.Printf("  loop %d: block %d (%s) line~%d phis=%v\n", k, h.Index, h.Comment, line, phis)
		}
	}
}

// cmdMods prints the type-based heap mod-set of functions (diagnostics).
func cmdMods(args []string) {
	l, err := loadRepo()
	if err != nil {
		fmt.Fprintln(os.Stderr, "TOOL-ERROR:", err)
		os.Exit(2)
	}
	cs, err := parseContracts(contractsPath())
	if err != nil {
		fmt.Fprintln(os.Stderr, "TOOL-ERROR:", err)
		os.Exit(2)
	}
	for _, a := range args {
		fn := l.Funcs[a]
		if fn == nil {
			fmt.Println("not found:", a)
			continue
		}
		stateSorts = map[string]string{"alloc": "Int"}
		e := newEnc(l, cs, fn, &Contract{})
		var ks []string
		for k := range e.deepMods(fn) {
			ks = append(ks, k)
		}
		sortStrings(ks)
		fmt.Println(a, len(ks))
		for _, k := range ks {
			fmt.Println("  ", k)
		}
	}
}
