package main

import (
	"bytes"
	"context"
	"fmt"
	"os"
	"os/exec"
	"path/filepath"
	"strings"
	"sync"
	"time"
)

type SolveResult struct {
	Status  string // unsat, sat, unknown, timeout, error
	Solver  string
	Time    float64
	Model   map[string]string
	Raw     map[string]string // per-solver raw output (first lines)
	File    string
	Agree   []string // solvers that also answered unsat (thorough tier)
}

type solverSpec struct {
	name string
	args func(timeoutS int, file string) []string
}

var solvers = []solverSpec{
	{"z3-new", func(t int, f string) []string { return []string{"z3-new", fmt.Sprintf("-T:%d", t), f} }},
	{"z3", func(t int, f string) []string { return []string{"z3", fmt.Sprintf("-T:%d", t), f} }},
	{"cvc5", func(t int, f string) []string {
		return []string{"cvc5", fmt.Sprintf("--tlimit=%d", t*1000), "--produce-models", f}
	}},
}

func outDir() string {
	d := os.Getenv("VERIF_OUT")
	if d == "" {
		d = "/verif/out"
	}
	return d
}

// solve races the installed solvers on one query. expectSat is for cover
// (vacuity) queries: the first sat answer wins instead.
func solve(name string, query string, modelVars []ModelVar, timeoutS int, expectSat bool, needAgree bool) SolveResult {
	dir := filepath.Join(outDir(), "smt")
	os.MkdirAll(dir, 0o755)
	file := filepath.Join(dir, sanitize(name)+".smt2")
	var sb strings.Builder
	sb.WriteString("(set-option :produce-models true)\n(set-logic ALL)\n")
	sb.WriteString(query)
	sb.WriteString("(check-sat)\n")
	if len(modelVars) > 0 {
		for _, mv := range modelVars {
			fmt.Fprintf(&sb, "(get-value (%s))\n", mv.Term)
		}
	}
	os.WriteFile(file, []byte(sb.String()), 0o644)

	type ans struct {
		solver string
		status string
		out    string
		dur    float64
	}
	ctx, cancel := context.WithCancel(context.Background())
	defer cancel()
	ch := make(chan ans, len(solvers))
	var wg sync.WaitGroup
	for _, s := range solvers {
		wg.Add(1)
		go func(s solverSpec) {
			defer wg.Done()
			args := s.args(timeoutS, file)
			start := time.Now()
			c, cc := context.WithTimeout(ctx, time.Duration(timeoutS+2)*time.Second)
			defer cc()
			cmd := exec.CommandContext(c, args[0], args[1:]...)
			var out bytes.Buffer
			cmd.Stdout = &out
			cmd.Stderr = &out
			cmd.Run()
			o := out.String()
			// the answer is the first line that is not a warning (z3 prints
			// "WARNING: ... cannot be used in patterns" before it)
			first := ""
			for _, ln := range strings.Split(o, "\n") {
				ln = strings.TrimSpace(ln)
				if ln == "" || strings.HasPrefix(ln, "WARNING") {
					continue
				}
				first = ln
				break
			}
			if i := strings.Index(o, first); i > 0 && first != "" {
				o = o[i:]
			}
			st := "unknown"
			switch {
			case first == "unsat":
				st = "unsat"
			case first == "sat":
				st = "sat"
			case first == "timeout" || strings.Contains(first, "timeout") || c.Err() != nil:
				st = "timeout"
			case strings.HasPrefix(first, "(error"):
				st = "error"
			}
			ch <- ans{s.name, st, o, time.Since(start).Seconds()}
		}(s)
	}
	go func() { wg.Wait(); close(ch) }()

	res := SolveResult{Status: "unknown", Raw: map[string]string{}, File: file}
	want := "unsat"
	if expectSat {
		want = "sat"
	}
	var satAns *ans
	got := 0
	for a := range ch {
		got++
		raw := a.out
		if len(raw) > 600 {
			raw = raw[:600]
		}
		res.Raw[a.solver] = fmt.Sprintf("%s (%.2fs): %s", a.status, a.dur, strings.TrimSpace(raw))
		if a.status == want {
			if res.Status != want {
				res.Status, res.Solver, res.Time = want, a.solver, a.dur
				if want == "sat" {
					res.Model = parseModel(a.out, modelVars)
				}
			}
			res.Agree = append(res.Agree, a.solver)
			if !needAgree || len(res.Agree) >= 2 {
				cancel()
				break
			}
			continue
		}
		if (a.status == "sat" || a.status == "unsat") && satAns == nil {
			aa := a
			satAns = &aa
		}
	}
	if res.Status != want {
		if satAns != nil {
			res.Status, res.Solver, res.Time = satAns.status, satAns.solver, satAns.dur
			if satAns.status == "sat" {
				res.Model = parseModel(satAns.out, modelVars)
			}
		} else {
			// all unknown / timeout
			allTimeout := true
			for _, r := range res.Raw {
				if !strings.HasPrefix(r, "timeout") {
					allTimeout = false
				}
			}
			if allTimeout {
				res.Status = "timeout"
			}
		}
	}
	return res
}

// parseModel extracts (get-value) answers: one "((term value))" per variable.
func parseModel(out string, vars []ModelVar) map[string]string {
	m := map[string]string{}
	lines := strings.SplitN(out, "\n", 2)
	if len(lines) < 2 {
		return m
	}
	rest := lines[1]
	// split top-level s-expressions
	depth := 0
	start := -1
	var exprs []string
	for i, c := range rest {
		switch c {
		case '(':
			if depth == 0 {
				start = i
			}
			depth++
		case ')':
			depth--
			if depth == 0 && start >= 0 {
				exprs = append(exprs, rest[start:i+1])
				start = -1
			}
		}
	}
	for i, ex := range exprs {
		if i >= len(vars) {
			break
		}
		// ((term value)) -> value
		inner := strings.TrimSpace(ex)
		inner = strings.TrimPrefix(inner, "((")
		inner = strings.TrimSuffix(inner, "))")
		t := vars[i].Term
		v := strings.TrimSpace(strings.TrimPrefix(inner, t))
		m[vars[i].Name] = v
	}
	return m
}
