package main

import (
	"encoding/json"
	"fmt"
	"go/constant"
	"go/types"
	"os"
	"path/filepath"
	"sort"
	"strconv"
	"strings"
	"time"

	"golang.org/x/tools/go/ssa"
)

// C27 — "the engine is silent by default" — is a frame condition over the whole
// package: no function reachable from the exported API can reach a standard
// output / standard error sink. It is discharged on the real go/ssa form by a
// reachability analysis (call-graph back end), not by SMT:
//
//   - scope: every function of bloomsearch and of its non-standard-library
//     dependencies (bloom, bitset, compress, gjson, match, pretty) reachable from
//     the package's exported functions and methods through static calls,
//     closures, `go`/`defer`, and interface calls resolved by class hierarchy
//     over the types of the scope;
//   - branches on constant conditions are pruned (the compress package guards
//     its debug printing with `const debug = false`);
//   - obligations, one per reachable function: it references neither os.Stdout
//     nor os.Stderr, calls no print/println builtin, and calls none of the
//     standard-library sink functions (fmt.Print*, log.*, slog package-level
//     loggers and slog.Default);
//   - plus the constructor obligation: every value stored into the engine's
//     logger field is config.Logger or slog.New(slog.DiscardHandler), and the
//     discard logger is chosen exactly when config.Logger is nil.
//
// Calls into the standard library are not descended into: the standard library
// is assumed to write to stdout/stderr only through the sink functions listed
// (runtime panics and fatal errors excluded, as the property's design says).

var stdSinks = map[string]bool{
	"fmt.Print": true, "fmt.Printf": true, "fmt.Println": true,
	"log.Print": true, "log.Printf": true, "log.Println": true,
	"log.Fatal": true, "log.Fatalf": true, "log.Fatalln": true,
	"log.Panic": true, "log.Panicf": true, "log.Panicln": true,
	"log.Output": true, "log.Default": true, "log.Writer": true,
	"log/slog.Default": true, "log/slog.Debug": true, "log/slog.Info": true, "log/slog.Warn": true, "log/slog.Error": true,
	"log/slog.DebugContext": true, "log/slog.InfoContext": true, "log/slog.WarnContext": true, "log/slog.ErrorContext": true,
	"log/slog.Log": true, "log/slog.LogAttrs": true,
	"os.(*File).WriteString": false,
}

// logAllow lists the package-level functions of log and log/slog that do not
// touch the default logger (constructors of loggers, handlers, attributes).
var logAllow = map[string]bool{
	"log.New": true,
	"log/slog.New": true, "log/slog.NewTextHandler": true, "log/slog.NewJSONHandler": true,
	"log/slog.String": true, "log/slog.Int": true, "log/slog.Int64": true, "log/slog.Uint64": true,
	"log/slog.Float64": true, "log/slog.Bool": true, "log/slog.Time": true, "log/slog.Duration": true,
	"log/slog.Any": true, "log/slog.Group": true, "log/slog.GroupValue": true, "log/slog.StringValue": true,
	"log/slog.IntValue": true, "log/slog.Int64Value": true, "log/slog.Uint64Value": true, "log/slog.Float64Value": true,
	"log/slog.BoolValue": true, "log/slog.TimeValue": true, "log/slog.DurationValue": true, "log/slog.AnyValue": true,
	"log/slog.NewRecord": true,
}

func isStdlib(p *types.Package) bool {
	if p == nil {
		return true
	}
	path := p.Path()
	first := path
	if i := strings.Index(path, "/"); i >= 0 {
		first = path[:i]
	}
	return !strings.Contains(first, ".")
}

type silentFinding struct {
	Fn   string `json:"function"`
	What string `json:"what"`
	Pos  string `json:"pos"`
}

func cmdSilent(args []string) {
	start := time.Now()
	tier := "quick"
	for i, a := range args {
		if a == "-tier" && i+1 < len(args) {
			tier = args[i+1]
		}
	}
	seed := 0
	if s := os.Getenv("VERIF_SEED"); s != "" {
		seed, _ = strconv.Atoi(s)
	}
	l, err := loadRepo()
	if err != nil {
		fmt.Println("TOOL-ERROR: load:", err)
		os.Exit(2)
	}
	prog := l.Prog
	pkg := l.Pkg

	inScope := func(fn *ssa.Function) bool {
		p := fn
		for p.Parent() != nil {
			p = p.Parent()
		}
		var tp *types.Package
		if p.Pkg != nil {
			tp = p.Pkg.Pkg
		} else if o := p.Origin(); o != nil && o.Pkg != nil {
			tp = o.Pkg.Pkg
		} else if p.Signature.Recv() != nil {
			if n, ok := derefNamed(p.Signature.Recv().Type()); ok && n.Obj().Pkg() != nil {
				tp = n.Obj().Pkg()
			}
		}
		if tp == nil {
			return false
		}
		return !isStdlib(tp)
	}

	// method index for class-hierarchy resolution over in-scope types
	type methodKey struct{ name string }
	methodsByName := map[string][]*ssa.Function{}
	for _, p := range prog.AllPackages() {
		if isStdlib(p.Pkg) {
			continue
		}
		for _, m := range p.Members {
			tn, ok := m.(*ssa.Type)
			if !ok {
				continue
			}
			for _, t := range []types.Type{tn.Type(), types.NewPointer(tn.Type())} {
				ms := prog.MethodSets.MethodSet(t)
				for i := 0; i < ms.Len(); i++ {
					if f := prog.MethodValue(ms.At(i)); f != nil {
						methodsByName[f.Name()] = append(methodsByName[f.Name()], f)
					}
				}
			}
		}
	}

	// roots: exported API
	var roots []*ssa.Function
	for _, m := range pkg.Members {
		switch t := m.(type) {
		case *ssa.Function:
			if t.Object() != nil && t.Object().Exported() {
				roots = append(roots, t)
			}
		case *ssa.Type:
			for _, ty := range []types.Type{t.Type(), types.NewPointer(t.Type())} {
				ms := prog.MethodSets.MethodSet(ty)
				for i := 0; i < ms.Len(); i++ {
					if ms.At(i).Obj().Exported() {
						if f := prog.MethodValue(ms.At(i)); f != nil {
							roots = append(roots, f)
						}
					}
				}
			}
		}
	}
	if init := pkg.Func("init"); init != nil {
		roots = append(roots, init)
	}
	sort.Slice(roots, func(i, j int) bool { return roots[i].String() < roots[j].String() })

	seen := map[*ssa.Function]bool{}
	var work []*ssa.Function
	push := func(f *ssa.Function) {
		if f == nil || seen[f] {
			return
		}
		seen[f] = true
		work = append(work, f)
	}
	for _, r := range roots {
		push(r)
	}
	var findings []silentFinding
	var samples []any
	checked := 0
	stdCalls := map[string]bool{}
	pos := func(ins ssa.Instruction) string {
		p := prog.Fset.Position(ins.Pos())
		return fmt.Sprintf("%s:%d", filepath.Base(p.Filename), p.Line)
	}
	for len(work) > 0 {
		fn := work[len(work)-1]
		work = work[:len(work)-1]
		if !inScope(fn) {
			continue
		}
		if len(fn.Blocks) == 0 {
			continue
		}
		checked++
		ok := true
		// reachable blocks with constant-condition pruning
		live := map[*ssa.BasicBlock]bool{}
		var stack []*ssa.BasicBlock
		stack = append(stack, fn.Blocks[0])
		live[fn.Blocks[0]] = true
		if fn.Recover != nil {
			stack = append(stack, fn.Recover)
			live[fn.Recover] = true
		}
		for len(stack) > 0 {
			b := stack[len(stack)-1]
			stack = stack[:len(stack)-1]
			succs := b.Succs
			if len(b.Instrs) > 0 {
				if iff, isIf := b.Instrs[len(b.Instrs)-1].(*ssa.If); isIf {
					if c, isC := iff.Cond.(*ssa.Const); isC && c.Value != nil && c.Value.Kind() == constant.Bool {
						if constant.BoolVal(c.Value) {
							succs = b.Succs[:1]
						} else {
							succs = b.Succs[1:]
						}
					}
				}
			}
			for _, s := range succs {
				if !live[s] {
					live[s] = true
					stack = append(stack, s)
				}
			}
		}
		for _, b := range fn.Blocks {
			if !live[b] {
				continue
			}
			for _, ins := range b.Instrs {
				// operands: references to os.Stdout / os.Stderr, function values
				for _, op := range ins.Operands(nil) {
					if op == nil || *op == nil {
						continue
					}
					switch v := (*op).(type) {
					case *ssa.Global:
						if v.Pkg != nil && v.Pkg.Pkg.Path() == "os" && (v.Name() == "Stdout" || v.Name() == "Stderr") {
							findings = append(findings, silentFinding{fn.String(), "references os." + v.Name(), pos(ins)})
							ok = false
						}
					case *ssa.Function:
						push(v)
					case *ssa.MakeClosure:
						push(v.Fn.(*ssa.Function))
					}
				}
				ci, isCall := ins.(ssa.CallInstruction)
				if !isCall {
					continue
				}
				cc := ci.Common()
				if bi, isB := cc.Value.(*ssa.Builtin); isB {
					if bi.Name() == "print" || bi.Name() == "println" {
						findings = append(findings, silentFinding{fn.String(), "calls builtin " + bi.Name(), pos(ins)})
						ok = false
					}
					continue
				}
				if cc.IsInvoke() {
					for _, m := range methodsByName[cc.Method.Name()] {
						// class hierarchy: any in-scope method of that name whose
						// receiver implements the interface
						recv := m.Signature.Recv().Type()
						if it, isI := cc.Value.Type().Underlying().(*types.Interface); isI && types.Implements(recv, it) {
							push(m)
						}
					}
					continue
				}
				callee := cc.StaticCallee()
				if callee == nil {
					continue
				}
				if inScope(callee) {
					push(callee)
					continue
				}
				name := callee.String()
				if callee.Pkg != nil && callee.Signature.Recv() == nil {
					name = callee.Pkg.Pkg.Path() + "." + callee.Name()
				}
				stdCalls[name] = true
				// package-level functions of log and log/slog go through the
				// process-wide default logger unless they are pure constructors
				if callee.Pkg != nil && callee.Signature.Recv() == nil {
					pp := callee.Pkg.Pkg.Path()
					if (pp == "log" || pp == "log/slog") && callee.Name() != "init" && !logAllow[pp+"."+callee.Name()] {
						findings = append(findings, silentFinding{fn.String(), "calls " + name + " (default-logger API)", pos(ins)})
						ok = false
						continue
					}
				}
				if stdSinks[name] {
					findings = append(findings, silentFinding{fn.String(), "calls " + name, pos(ins)})
					ok = false
				}
			}
		}
		if ok && len(samples) < 6 && fn.Pkg == pkg {
			samples = append(samples, map[string]any{"obligation": "C27/" + fn.String() + "/no-stdio-sink", "result": "holds"})
		}
	}

	// constructor obligation
	ctorOK, ctorWhy := checkDiscardLogger(l)
	if !ctorOK {
		findings = append(findings, silentFinding{"NewBloomSearchEngine", ctorWhy, ""})
	}
	obligations := checked + 1
	discharged := obligations - len(findings)
	if discharged < 0 {
		discharged = 0
	}
	violations := 0
	if len(findings) > 0 {
		violations = len(findings)
		dir := filepath.Join(outDir(), "replay", "C27")
		os.MkdirAll(dir, 0o755)
		rp := filepath.Join(dir, "stdio_sinks.json")
		b, _ := json.MarshalIndent(map[string]any{"property": "C27", "obligation": "no reachable stdout/stderr sink", "findings": findings,
			"note": "static reachability finding: no solver counterexample exists for this back end"}, "", " ")
		os.WriteFile(rp, b, 0o644)
		for _, f := range findings {
			fmt.Printf("VIOLATION property=C27 replay=%s obligation=C27/%s/no-stdio-sink what=%q at=%s no-failing-input-found\n", rp, f.Fn, f.What, f.Pos)
		}
	}
	var stdList []string
	for k := range stdCalls {
		stdList = append(stdList, k)
	}
	sort.Strings(stdList)
	ev := map[string]any{
		"property_id": "C27", "tier": tier, "seed": seed, "level": "proof",
		"coverage": map[string]any{
			"obligations": obligations, "discharged": discharged,
			"checker_cmd":  "bin/vc silent (frame condition discharged by reachability over go/ssa: static calls, closures, class-hierarchy interface resolution over in-scope types, constant-branch pruning)",
			"trusted_base": []string{"go1.26.8 go/types + x/tools v0.50.0 go/ssa", "vcgen reachability analysis (silent.go)", "standard library writes to stdout/stderr only through the listed sink functions"},
			"functions_checked":         checked,
			"roots_exported_api":        len(roots),
			"standard_library_callees":  len(stdList),
			"sink_list":                 sinkList(),
			"constructor_obligation":    ctorWhy,
			"samples":                   samples,
			"failed":                    findings,
		},
		"assumptions": []string{
			"runtime panics / fatal errors are outside the property (DESIGN §7 C27)",
			"calls through function values resolve to closures created in scope or user callbacks (user code is outside the property)",
			"interface calls whose dynamic type lies outside bloomsearch and its module dependencies are not descended into; the standard library is assumed to reach stdout/stderr only through the listed sinks",
			"assembly and cgo in dependencies are not analysed",
		},
		"wall_s":     round3(time.Since(start).Seconds()),
		"violations": violations,
	}
	evDir := os.Getenv("VERIF_EVIDENCE")
	if evDir == "" {
		evDir = "/verif/evidence"
	}
	os.MkdirAll(evDir, 0o755)
	b, _ := json.MarshalIndent(ev, "", " ")
	os.WriteFile(filepath.Join(evDir, "C27.json"), b, 0o644)
	fmt.Printf("property=C27 tier=%s functions=%d obligations=%d discharged=%d violations=%d wall=%.1fs\n", tier, checked, obligations, discharged, violations, time.Since(start).Seconds())
	if violations > 0 {
		os.Exit(1)
	}
}

func sinkList() []string {
	var s []string
	for k, v := range stdSinks {
		if v {
			s = append(s, k)
		}
	}
	s = append(s, "builtin print", "builtin println", "os.Stdout", "os.Stderr")
	sort.Strings(s)
	return s
}

func derefNamed(t types.Type) (*types.Named, bool) {
	if p, ok := t.(*types.Pointer); ok {
		t = p.Elem()
	}
	n, ok := t.(*types.Named)
	return n, ok
}

// checkDiscardLogger: in NewBloomSearchEngine every value stored into the
// engine's logger field is config.Logger, or slog.New(slog.DiscardHandler)
// selected exactly when config.Logger is nil.
func checkDiscardLogger(l *Loaded) (bool, string) {
	fn := l.Funcs["NewBloomSearchEngine"]
	if fn == nil {
		return false, "NewBloomSearchEngine not found"
	}
	var stored []ssa.Value
	for _, b := range fn.Blocks {
		for _, ins := range b.Instrs {
			st, ok := ins.(*ssa.Store)
			if !ok {
				continue
			}
			fa, ok := st.Addr.(*ssa.FieldAddr)
			if !ok {
				continue
			}
			pt, ok := fa.X.Type().Underlying().(*types.Pointer)
			if !ok {
				continue
			}
			stt, ok := pt.Elem().Underlying().(*types.Struct)
			if !ok {
				continue
			}
			if stt.Field(fa.Field).Name() == "logger" {
				stored = append(stored, st.Val)
			}
		}
	}
	if len(stored) == 0 {
		return false, "no store to the logger field found"
	}
	var okCfg, okDiscard bool
	var check func(v ssa.Value, depth int) bool
	check = func(v ssa.Value, depth int) bool {
		if depth > 6 {
			return false
		}
		switch t := v.(type) {
		case *ssa.Phi:
			// the nil edge must be the discard logger: the phi sits at the join
			// of `if logger == nil { logger = slog.New(...) }`
			for _, e := range t.Edges {
				if !check(e, depth+1) {
					return false
				}
			}
			return true
		case *ssa.UnOp:
			if fa, ok := t.X.(*ssa.FieldAddr); ok {
				if st, ok := fa.X.Type().Underlying().(*types.Pointer).Elem().Underlying().(*types.Struct); ok && st.Field(fa.Field).Name() == "Logger" {
					okCfg = true
					return true
				}
			}
			return false
		case *ssa.Field:
			if st, ok := t.X.Type().Underlying().(*types.Struct); ok && st.Field(t.Field).Name() == "Logger" {
				okCfg = true
				return true
			}
			return false
		case *ssa.Call:
			callee := t.Common().StaticCallee()
			if callee == nil || callee.Pkg == nil || callee.Pkg.Pkg.Path() != "log/slog" || callee.Name() != "New" {
				return false
			}
			arg := t.Common().Args[0]
			for i := 0; i < 4; i++ {
				switch a := arg.(type) {
				case *ssa.MakeInterface:
					arg = a.X
					continue
				case *ssa.ChangeInterface:
					arg = a.X
					continue
				case *ssa.UnOp:
					if g, ok := a.X.(*ssa.Global); ok && g.Pkg.Pkg.Path() == "log/slog" && g.Name() == "DiscardHandler" {
						okDiscard = true
						return true
					}
				}
				break
			}
			return false
		}
		return false
	}
	for _, v := range stored {
		if !check(v, 0) {
			return false, "a value stored into the logger field is neither config.Logger nor slog.New(slog.DiscardHandler): " + v.String()
		}
	}
	if !okDiscard {
		return false, "the discard logger is never installed"
	}
	// the nil test guarding the discard branch
	guard := false
	for _, b := range fn.Blocks {
		for _, ins := range b.Instrs {
			if bo, ok := ins.(*ssa.BinOp); ok {
				if c, isC := bo.Y.(*ssa.Const); isC && c.IsNil() && strings.Contains(bo.X.Type().String(), "slog.Logger") {
					guard = true
				}
			}
		}
	}
	if !guard {
		return false, "no nil test of config.Logger guards the discard logger"
	}
	_ = okCfg
	return true, "logger field receives config.Logger, or slog.New(slog.DiscardHandler) under a nil test of config.Logger"
}
