package main

// Type-based mod analysis ("which heaps can this callee write at all").
//
// A contract that says `modifies heaps` (or no contract at all) used to cost the
// caller everything it knew about memory. deepMods refines that soundly: the
// heaps a function can modify are those some Store / MapUpdate / copy / append /
// delete in its body — or in the body of anything it can call in this package —
// writes, by the static element type of the written address (the encoder keys
// heaps by exactly that type). For callees whose code is not analysed (the
// standard library, module dependencies, interface methods implemented outside
// the package, function values) the rule is the one havocCall always used:
// they write only memory reachable, by type, from their arguments and receiver.
// Interface-typed arguments reach what their in-package implementers reach;
// `any`, error and context.Context are opaque (assumption, listed in evidence).
//
// The result is used at call sites of `modifies heaps` contracts, of abstracted
// callees, and in loop mod-sets. "*" means unknown: everything.

import (
	"go/types"
	"strings"

	"golang.org/x/tools/go/ssa"
)

// The cache is per encoder (per function under verification): naming a heap
// declares its sorts in that function's builder.
func (e *Enc) deepMods(root *ssa.Function) map[string]bool {
	if root == nil {
		return map[string]bool{"*": true}
	}
	if e.deepModsCache == nil {
		e.deepModsCache = map[*ssa.Function]map[string]bool{}
	}
	deepModsCache := e.deepModsCache
	if m, ok := deepModsCache[root]; ok {
		return m
	}
	mods := map[string]bool{}
	seen := map[*ssa.Function]bool{root: true}
	work := []*ssa.Function{root}
	push := func(f *ssa.Function) {
		if f != nil && !seen[f] {
			seen[f] = true
			work = append(work, f)
		}
	}
	for len(work) > 0 && !mods["*"] {
		fn := work[len(work)-1]
		work = work[:len(work)-1]
		if len(fn.Blocks) == 0 || !e.inPackage(fn) {
			e.argReach(fn.Signature, nil, mods)
			continue
		}
		for _, b := range fn.Blocks {
			for _, ins := range b.Instrs {
				switch t := ins.(type) {
				case *ssa.Store:
					e.deepAddr(t.Addr, mods)
				case *ssa.MapUpdate:
					mt := t.Map.Type().Underlying().(*types.Map)
					mods[e.mapKey(mt, "dom")] = true
					mods[e.mapKey(mt, "val")] = true
				case *ssa.MakeClosure:
					push(t.Fn.(*ssa.Function))
				case ssa.CallInstruction:
					e.deepCall(t.Common(), mods, push)
				}
			}
		}
	}
	if mods["*"] {
		mods = map[string]bool{"*": true}
	}
	deepModsCache[root] = mods
	return mods
}

func (e *Enc) deepAddr(addr ssa.Value, mods map[string]bool) {
	for {
		switch a := addr.(type) {
		case *ssa.FieldAddr:
			addr = a.X
			continue
		case *ssa.IndexAddr:
			switch u := a.X.Type().Underlying().(type) {
			case *types.Pointer:
				addr = a.X
				continue
			case *types.Slice:
				e.noteHeap(u.Elem(), mods)
				return
			}
		}
		break
	}
	if _, isAlloc := addr.(*ssa.Alloc); isAlloc {
		return // an object the callee itself allocated
	}
	if pt, ok := addr.Type().Underlying().(*types.Pointer); ok {
		e.noteHeap(pt.Elem(), mods)
		return
	}
	mods["*"] = true
}

func (e *Enc) noteHeap(elem types.Type, mods map[string]bool) {
	defer func() {
		if r := recover(); r != nil {
			if _, ok := r.(encErr); ok {
				mods["*"] = true
				return
			}
			panic(r)
		}
	}()
	k := e.B.heapName(elem)
	stateSorts[k] = e.B.heapSort(elem)
	mods[k] = true
}

func (e *Enc) deepCall(common *ssa.CallCommon, mods map[string]bool, push func(*ssa.Function)) {
	if bi, ok := common.Value.(*ssa.Builtin); ok {
		switch bi.Name() {
		case "append", "copy":
			if sl, ok := common.Args[0].Type().Underlying().(*types.Slice); ok {
				e.noteHeap(sl.Elem(), mods) // append may write in place
			}
		case "delete", "clear":
			switch u := common.Args[0].Type().Underlying().(type) {
			case *types.Map:
				mods[e.mapKey(u, "dom")] = true
				mods[e.mapKey(u, "val")] = true
			case *types.Slice:
				e.noteHeap(u.Elem(), mods)
			}
		}
		return
	}
	ct := e.classify(common, nil)
	if ct.con != nil && !contractCoarse(ct.con) {
		// a precise frame (verified for in-package functions, trusted for externs)
		tmp := map[string]bool{}
		for _, target := range ct.con.Modifies {
			switch {
			case strings.HasPrefix(target, "ghost."), target == "nothing":
			case strings.HasPrefix(target, "heap("):
				if t := e.lookupType(target[5 : len(target)-1]); t != nil {
					e.noteHeap(t, tmp)
				} else {
					tmp["*"] = true
				}
			default:
				e.scanModTarget(ct, target, tmp)
			}
		}
		for k := range tmp {
			if strings.HasPrefix(k, "HS.") || strings.HasPrefix(k, "HM.") || k == "*" {
				mods[k] = true
			}
		}
		return
	}
	if common.IsInvoke() {
		// in-package implementers are analysed; others write what they can reach
		e.pushImplementers(common.Value.Type(), common.Method, push)
		e.reachType(common.Value.Type(), mods, map[string]bool{})
		for _, a := range common.Args {
			e.reachType(a.Type(), mods, map[string]bool{})
		}
		return
	}
	if ct.fn != nil && len(ct.fn.Blocks) > 0 && e.inPackage(ct.fn) {
		push(ct.fn)
		return
	}
	// no analysable body: arguments (and receiver) by type
	for _, a := range common.Args {
		e.reachType(a.Type(), mods, map[string]bool{})
		if mc, ok := a.(*ssa.MakeClosure); ok {
			push(mc.Fn.(*ssa.Function))
		}
	}
}

func contractCoarse(c *Contract) bool {
	for _, t := range c.Modifies {
		if t == "all" || t == "heaps" {
			return true
		}
	}
	return false
}

// argReach adds what a function of the given signature can reach through its
// parameters and receiver.
func (e *Enc) argReach(sig *types.Signature, extra []types.Type, mods map[string]bool) {
	seen := map[string]bool{}
	if r := sig.Recv(); r != nil {
		e.reachType(r.Type(), mods, seen)
	}
	for i := 0; i < sig.Params().Len(); i++ {
		e.reachType(sig.Params().At(i).Type(), mods, seen)
	}
	for _, t := range extra {
		e.reachType(t, mods, seen)
	}
}

func (e *Enc) reachType(t types.Type, mods map[string]bool, seen map[string]bool) {
	if mods["*"] {
		return
	}
	id := types.TypeString(t, nil)
	if seen[id] {
		return
	}
	seen[id] = true
	switch u := t.Underlying().(type) {
	case *types.Struct:
		for i := 0; i < u.NumFields(); i++ {
			e.reachType(u.Field(i).Type(), mods, seen)
		}
	case *types.Pointer:
		e.noteHeap(u.Elem(), mods)
		e.reachType(u.Elem(), mods, seen)
	case *types.Slice:
		e.noteHeap(u.Elem(), mods)
		e.reachType(u.Elem(), mods, seen)
	case *types.Array:
		e.reachType(u.Elem(), mods, seen)
	case *types.Map:
		mods[e.mapKey(u, "dom")] = true
		mods[e.mapKey(u, "val")] = true
		e.reachType(u.Key(), mods, seen)
		e.reachType(u.Elem(), mods, seen)
	case *types.Chan:
		e.reachType(u.Elem(), mods, seen)
	case *types.Interface:
		if u.NumMethods() == 0 || opaqueInterface(t) {
			return
		}
		for _, impl := range e.implementers(u) {
			e.reachType(impl, mods, seen)
		}
	case *types.Signature:
		// a function value: what a closure passed by the caller writes is added
		// at the call site (closureMods); function values of unknown origin
		// (user callbacks held in configuration) are assumed not to write
		// engine state
	}
}

func opaqueInterface(t types.Type) bool {
	s := types.TypeString(t, nil)
	return s == "context.Context" || s == "error"
}

// implementers lists the package's named types (T or *T) whose method set
// satisfies the interface.
func (e *Enc) implementers(it *types.Interface) []types.Type {
	var out []types.Type
	scope := e.L.Pkg.Pkg.Scope()
	for _, name := range scope.Names() {
		tn, ok := scope.Lookup(name).(*types.TypeName)
		if !ok {
			continue
		}
		T := tn.Type()
		if _, isIface := T.Underlying().(*types.Interface); isIface {
			continue
		}
		if _, isNamed := T.(*types.Named); !isNamed {
			continue
		}
		if n := T.(*types.Named); n.TypeParams() != nil && n.TypeParams().Len() > 0 {
			continue
		}
		if types.Implements(T, it) {
			out = append(out, T)
		} else if types.Implements(types.NewPointer(T), it) {
			out = append(out, types.NewPointer(T))
		}
	}
	return out
}

func (e *Enc) pushImplementers(recv types.Type, m *types.Func, push func(*ssa.Function)) {
	it, ok := recv.Underlying().(*types.Interface)
	if !ok {
		return
	}
	for _, impl := range e.implementers(it) {
		ms := e.L.Prog.MethodSets.MethodSet(impl)
		if sel := ms.Lookup(m.Pkg(), m.Name()); sel != nil {
			if f := e.L.Prog.MethodValue(sel); f != nil {
				push(f)
			}
		}
	}
}

// havocMods forgets the heaps named by a deepMods result (everything for "*").
func (e *Enc) havocMods(st *State, mods map[string]bool) {
	if mods["*"] {
		e.havocAll(st, false)
		return
	}
	e.havocAlloc(st)
	var ks []string
	for k := range mods {
		if strings.HasPrefix(k, "HS.") || strings.HasPrefix(k, "HM.") {
			ks = append(ks, k)
		}
	}
	sortStrings(ks)
	for _, k := range ks {
		srt, ok := stateSorts[k]
		if !ok {
			e.havocAll(st, false)
			return
		}
		st.m[k] = e.baseHeap(st, k, "@havoc", srt)
	}
}

// closureMods adds what closures passed as arguments can write.
func (e *Enc) closureMods(args []Val, mods map[string]bool) {
	for _, a := range args {
		if a.Fn != nil {
			for k := range e.deepMods(a.Fn) {
				mods[k] = true
			}
		}
	}
}

// calleeMods is the heap mod-set used at a call site of a callee whose frame is
// coarse or unknown.
func (e *Enc) calleeMods(ct callTarget, args []Val) map[string]bool {
	mods := map[string]bool{}
	if ct.fn != nil && len(ct.fn.Blocks) > 0 && e.inPackage(ct.fn) {
		for k := range e.deepMods(ct.fn) {
			mods[k] = true
		}
	} else if ct.sig != nil {
		e.argReach(ct.sig, nil, mods)
		if ct.recvArg && len(args) > 0 && args[0].Typ != nil {
			e.reachType(args[0].Typ, mods, map[string]bool{})
		}
	} else {
		mods["*"] = true
	}
	e.closureMods(args, mods)
	return mods
}
