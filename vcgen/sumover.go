package main

import (
	"fmt"
	"go/types"
	"regexp"
	"strings"
)

// Folds. "sum x in s :: e(x)" is the sum of e over the elements of slice s.
//
// Encoding: one global recursive function over integer arrays,
//
//	isum(V, o, n) = if n <= 0 then 0 else isum(V, o, n-1) + V[o+n-1]
//
// and, per occurrence, a fresh array of the summands defined pointwise:
// vals[a] = e(elems[a]) for every index a of the slice's backing array (a
// conservative definition: such an array always exists). Because every state
// of the program gives a different vals array, the facts that relate sums in
// different states are properties of isum alone, stated once: extensionality
// (pointwise equal ranges have equal sums), non-negativity and concatenation.
// They are *proved* on every run by induction (lemmaResults: a base and a step
// query each, over the recursion equation only), not assumed.
//
// Under an enclosing quantifier the summand array depends on the bound
// variables; it is then a function of them.

// In the obligations isum is an uninterpreted function constrained only by the
// lemmas below (each proved from the recursion equation by lemmaResults): a
// recursive definition in every query made the solvers unfold it without end.
const isumDecl = `(declare-fun isum ((Array Int Int) Int Int) Int)`

var isumLemmas = []string{
	// empty range, one-element range
	`(assert (forall ((V (Array Int Int)) (o Int) (n Int)) (! (=> (<= n 0) (= (isum V o n) 0)) :pattern ((isum V o n)))))`,
	`(assert (forall ((V (Array Int Int)) (o Int) (n Int)) (! (=> (= n 1) (= (isum V o n) (select V o))) :pattern ((isum V o n)))))`,
	// one more element of the same array (triggered only by two existing sums of
	// the same array and offset: creates no new sum terms, so no matching loop)
	`(assert (forall ((V (Array Int Int)) (o Int) (n Int) (m Int)) (! (=> (and (>= n 0) (= m (+ n 1))) (= (isum V o m) (+ (isum V o n) (select V (+ o n))))) :pattern ((isum V o n) (isum V o m)))))`,
	// one more element, between two arrays that agree on the range (the state may
	// have changed in between: a store to another object of the same heap)
	`(assert (forall ((V1 (Array Int Int)) (V2 (Array Int Int)) (o1 Int) (o2 Int) (n Int) (m Int)) (! (=> (and (>= n 0) (= m (+ n 1)) (forall ((a Int)) (! (=> (and (<= o1 a) (< a (+ o1 n))) (= (select V1 a) (select V2 (+ o2 (- a o1))))) :pattern ((select V1 a))))) (= (isum V2 o2 m) (+ (isum V1 o1 n) (select V2 (+ o2 n))))) :pattern ((isum V1 o1 n) (isum V2 o2 m)))))`,
	// extensionality (the lengths are separate variables so that matching does
	// not depend on the two length terms being syntactically equal; hypotheses
	// range over absolute indices so that they have a plain select as trigger)
	`(assert (forall ((V1 (Array Int Int)) (V2 (Array Int Int)) (o1 Int) (o2 Int) (n1 Int) (n2 Int)) (! (=> (and (= n1 n2) (forall ((a Int)) (! (=> (and (<= o1 a) (< a (+ o1 n1))) (= (select V1 a) (select V2 (+ o2 (- a o1))))) :pattern ((select V1 a))))) (= (isum V1 o1 n1) (isum V2 o2 n2))) :pattern ((isum V1 o1 n1) (isum V2 o2 n2)))))`,
}

// non-negative summands give a non-negative sum (declared only by clauses that
// ask for it: sumnonneg)
const isumNonneg = `(assert (forall ((V (Array Int Int)) (o Int) (n Int)) (! (=> (forall ((a Int)) (! (=> (and (<= o a) (< a (+ o n))) (>= (select V a) 0)) :pattern ((select V a)))) (>= (isum V o n) 0)) :pattern ((isum V o n)))))`

// counting lemmas (declared only by clauses that ask for them: sumcount):
// a one-point change of the summands changes the sum by the difference at that
// point; all-zero summands sum to 0; all-one summands over n >= 0 positions sum
// to n. Each proved by induction in lemmaResults.
var isumCount = []string{
	// (the one-point-change lemma is not declared globally: its instances are
	// emitted at the stores, storeSumFacts)
	`(assert (forall ((V (Array Int Int)) (o Int) (n Int)) (! (=> (forall ((a Int)) (! (=> (and (<= o a) (< a (+ o n))) (= (select V a) 0)) :pattern ((select V a)))) (= (isum V o n) 0)) :pattern ((isum V o n)))))`,
	`(assert (forall ((V (Array Int Int)) (o Int) (n Int)) (! (=> (and (>= n 0) (forall ((a Int)) (! (=> (and (<= o a) (< a (+ o n))) (= (select V a) 1)) :pattern ((select V a))))) (= (isum V o n) n)) :pattern ((isum V o n)))))`,
}

type vmapInfo struct{ fn, es string }

// storeSumFacts: at a store into one element of an array, for every summand
// function in use over this element sort (and only in functions that ask for
// the counting lemmas, `sumcount`), the instance of the one-point-change lemma
// (isum-point, proved by induction in lemmaResults) for the array before and
// after the store and the stored position — hypotheses included, so nothing is
// assumed: the solver still has to establish that the two summand arrays agree
// everywhere else, which is the array theory plus the summand definition.
func (e *Enc) storeSumFacts(es string, oldArr, idx, v Term) {
	if !e.usesSum || e.con == nil || !e.con.SumCount {
		return
	}
	for _, vi := range e.vmapList {
		if vi.es != es {
			continue
		}
		E := e.B.define("st.E", "(Array Int "+es+")", oldArr)
		j := e.B.define("st.j", "Int", idx)
		V1 := "(" + vi.fn + " " + E + ")"
		V2 := "(" + vi.fn + " (store " + E + " " + j + " " + v + "))"
		e.B.assume(fmt.Sprintf("(forall ((o Int) (n1 Int) (n2 Int)) (! (=> (and (= n1 n2) (<= o %s) (< %s (+ o n1)) (forall ((a Int)) (! (=> (and (<= o a) (< a (+ o n1)) (not (= a %s))) (= (select %s a) (select %s a))) :pattern ((select %s a))))) (= (isum %s o n2) (+ (isum %s o n1) (- (select %s %s) (select %s %s))))) :pattern ((isum %s o n1) (isum %s o n2))))",
			j, j, j, V1, V2, V1, V2, V1, V2, j, V1, j, V1, V2))
	}
}

// appendSumFacts: at an append, for every summand function in use over this
// element sort, the instance of the concatenation lemma (proved by induction in
// lemmaResults) for the appended array: once the solver has established that
// the new array holds the old elements followed by the added ones — which is
// the append axiom itself — the sum over the result is the sum over the old
// slice plus the sum over the added one. An instance of a proved universal
// statement: nothing is assumed.
func (e *Enc) appendSumFacts(es string, na, oldArr, oldOff, oldLen, addArr, addOff, addLen Term) {
	if !e.usesSum {
		return
	}
	for _, vi := range e.vmapList {
		if vi.es != es {
			continue
		}
		V := "(" + vi.fn + " " + na + ")"
		Vo := "(" + vi.fn + " " + oldArr + ")"
		Va := "(" + vi.fn + " " + addArr + ")"
		k := e.B.freshName("cs")
		hyp1 := fmt.Sprintf("(forall ((%s Int)) (! (=> (and (<= %s %s) (< %s (+ %s %s))) (= (select %s %s) (select %s (+ 0 (- %s %s))))) :pattern ((select %s %s))))", k, oldOff, k, k, oldOff, oldLen, Vo, k, V, k, oldOff, Vo, k)
		hyp2 := fmt.Sprintf("(forall ((%s Int)) (! (=> (and (<= %s %s) (< %s (+ %s %s))) (= (select %s (+ (+ 0 %s) (- %s %s))) (select %s %s))) :pattern ((select %s %s))))", k, addOff, k, k, addOff, addLen, V, oldLen, k, addOff, Va, k, Va, k)
		e.B.assume(fmt.Sprintf("(=> (and (>= %s 0) (>= %s 0) %s %s) (= (isum %s 0 (+ %s %s)) (+ (isum %s %s %s) (isum %s %s %s))))",
			oldLen, addLen, hyp1, hyp2, V, oldLen, addLen, Vo, oldOff, oldLen, Va, addOff, addLen))
	}
}

var boundVarRe = regexp.MustCompile(`q\.[A-Za-z0-9_$]+![0-9]+`)

func (e *Enc) useIsum() {
	e.B.declTop("isum", isumDecl)
	for i, l := range isumLemmas {
		e.B.declTop(fmt.Sprintf("isum.lemma%d", i), l)
	}
	if e.con != nil && e.con.SumNonneg {
		e.B.declTop("isum.nonneg", isumNonneg)
	}
	if e.con != nil && e.con.SumCount {
		for i, l := range isumCount {
			e.B.declTop(fmt.Sprintf("isum.count%d", i), l)
		}
	}
	e.usesSum = true
}

func (e *Enc) compileSumOver(c *SpecCtx, x *Expr) CE {
	e.useIsum()
	s := e.compile(c, x.Args[1])
	if s.Typ != nil {
		if _, ok := s.Typ.Underlying().(*types.Pointer); ok {
			s = e.deref(c, s)
		}
	}
	sl, ok := s.Typ.Underlying().(*types.Slice)
	if !ok {
		fail("%s: 'sum ... in' needs a slice, got %v", c.what, s.Typ)
	}
	elem := sl.Elem()
	h := e.get(c.st, e.B.heapName(elem), e.B.heapSort(elem))
	sv := s.T
	arr := fmt.Sprintf("(select %s (sarr %s))", h, sv)
	if !strings.Contains(s.T, "q.") {
		sv = e.B.define("qs", "Slice", s.T)
		arr = e.B.define("qelems", "(Array Int "+e.B.sortOf(elem)+")", arr)
	}
	a := e.B.freshName("q." + x.Var)
	e.noteBound(a, "Int")
	ptr := fmt.Sprintf("(mkptr (sarr %s) %s)", sv, a)
	el := CE{T: fmt.Sprintf("(select %s %s)", arr, a), Typ: elem, P: &Place{Kind: PDeref, Ptr: ptr, Typ: elem}}
	el = e.typedRead(c, el)
	bodyCE := e.compile(c.bindName(x.Var, el), x.Args[0])
	body := e.toInt(c, bodyCE)
	es := e.B.sortOf(elem)
	// Preferred form: the summand array is a function of the element array,
	// vmap(E)[a] = body(E[a]); the function symbol is shared by every occurrence
	// with the same summand text, so two states whose element arrays are equal
	// (array theory: a store to another object does not change this one) have
	// equal summand arrays by congruence, with no quantifier reasoning at all.
	elemRead := fmt.Sprintf("(select %s %s)", arr, a)
	key := replaceToken(strings.ReplaceAll(body, elemRead, "X!"), a, "A!")
	if !strings.Contains(key, "A!") && !strings.Contains(replaceToken(key, arr, "E!"), "E!") {
		var outer []string
		seen := map[string]bool{}
		for _, m := range boundVarRe.FindAllString(key, -1) {
			if !seen[m] {
				seen[m] = true
				outer = append(outer, m)
			}
		}
		if e.vmaps == nil {
			e.vmaps = map[string]string{}
		}
		fkey := es + "|" + key
		fn, ok := e.vmaps[fkey]
		if !ok || len(outer) > 0 {
			fn = e.B.freshName("vmap")
			e.vmaps[fkey] = fn
			if len(outer) == 0 {
				e.vmapList = append(e.vmapList, vmapInfo{fn: fn, es: es})
			}
			ps := []string{"(Array Int " + es + ")"}
			bs := []string{"(E! (Array Int " + es + "))"}
			for _, o := range outer {
				srt := e.boundSorts[o]
				if srt == "" {
					srt = "Int"
				}
				ps = append(ps, srt)
				bs = append(bs, fmt.Sprintf("(%s %s)", o, srt))
			}
			app := "(" + fn + " E!"
			for _, o := range outer {
				app += " " + o
			}
			app += ")"
			e.B.emit(fmt.Sprintf("(declare-fun %s (%s) (Array Int Int))", fn, strings.Join(ps, " ")))
			e.B.assume(fmt.Sprintf("(forall (%s (A! Int)) (! (= (select %s A!) %s) :pattern ((select %s A!))))",
				strings.Join(bs, " "), app, strings.ReplaceAll(key, "X!", "(select E! A!)"), app))
		}
		app := "(" + fn + " " + arr
		for _, o := range outer {
			app += " " + o
		}
		app += ")"
		return CE{T: fmt.Sprintf("(isum %s (soff %s) (slen %s))", app, sv, sv), Typ: tMath}
	}
	// General form: a fresh summand array per occurrence (a function of the
	// enclosing bound variables when there are any).
	var outer []string
	seen := map[string]bool{a: true}
	for _, m := range boundVarRe.FindAllString(body+" "+arr, -1) {
		if !seen[m] {
			seen[m] = true
			outer = append(outer, m)
		}
	}
	vals := e.B.freshName("vals")
	var valsT Term
	if len(outer) == 0 {
		e.B.emit(fmt.Sprintf("(declare-const %s (Array Int Int))", vals))
		valsT = vals
		e.B.assume(fmt.Sprintf("(forall ((%s Int)) (! (= (select %s %s) %s) :pattern ((select %s %s))))", a, valsT, a, body, valsT, a))
	} else {
		var ps, bs []string
		for _, o := range outer {
			srt := e.boundSorts[o]
			if srt == "" {
				srt = "Int"
			}
			ps = append(ps, srt)
			bs = append(bs, fmt.Sprintf("(%s %s)", o, srt))
		}
		e.B.emit(fmt.Sprintf("(declare-fun %s (%s) (Array Int Int))", vals, strings.Join(ps, " ")))
		valsT = "(" + vals + " " + strings.Join(outer, " ") + ")"
		e.B.assume(fmt.Sprintf("(forall (%s (%s Int)) (! (= (select %s %s) %s) :pattern ((select %s %s))))", strings.Join(bs, " "), a, valsT, a, body, valsT, a))
	}
	return CE{T: fmt.Sprintf("(isum %s (soff %s) (slen %s))", valsT, sv, sv), Typ: tMath}
}

// replaceToken replaces whole occurrences of an SMT symbol (not prefixes of a
// longer symbol).
func replaceToken(s, tok, repl string) string {
	var b strings.Builder
	for {
		i := strings.Index(s, tok)
		if i < 0 {
			b.WriteString(s)
			return b.String()
		}
		j := i + len(tok)
		symc := func(c byte) bool {
			return c == '!' || c == '.' || c == '_' || c == '$' || c == '@' || (c >= '0' && c <= '9') || (c >= 'a' && c <= 'z') || (c >= 'A' && c <= 'Z')
		}
		if (j < len(s) && symc(s[j])) || (i > 0 && symc(s[i-1]) && !strings.HasPrefix(tok, "(")) {
			b.WriteString(s[:j])
			s = s[j:]
			continue
		}
		b.WriteString(s[:i])
		b.WriteString(repl)
		s = s[j:]
	}
}

func (e *Enc) noteBound(name, srt string) {
	if e.boundSorts == nil {
		e.boundSorts = map[string]string{}
	}
	e.boundSorts[name] = srt
}

// lemmaResults: the induction proofs of the isum lemmas, as standalone
// obligations over an uninterpreted isum constrained only by its recursion
// equation. Included in every check whose obligations use a fold.
func lemmaResults() []*FuncResult {
	const defn = `(declare-fun isum ((Array Int Int) Int Int) Int)
(assert (forall ((V (Array Int Int)) (o Int) (n Int)) (! (= (isum V o n) (ite (<= n 0) 0 (+ (isum V o (- n 1)) (select V (+ o (- n 1)))))) :pattern ((isum V o n)))))
(declare-const n Int)
(declare-const V1 (Array Int Int))
(declare-const V2 (Array Int Int))
(declare-const o1 Int)
(declare-const o2 Int)
(declare-const m Int)
(declare-const V3 (Array Int Int))
(declare-const o3 Int)
(declare-const j Int)
`
	mk := func(name, src string, hyps []string, goal string) *FuncResult {
		b := &Builder{sorts: map[string]bool{}, declared: map[string]bool{}, strLits: map[string]string{}, typeIDs: map[string]int{}}
		b.top = append(b.top, defn)
		for _, h := range hyps {
			b.emit("(assert " + h + ")")
		}
		o := &Obligation{Name: "prelude/" + name, Kind: "lemma", Fn: "prelude(isum)", Pos: b.pos(), Goal: goal, Src: src, Where: "vcgen/sumover.go"}
		return &FuncResult{Name: "prelude(isum)/" + name, Builder: b, Obls: []*Obligation{o}}
	}
	extHyp := func(n string) string {
		return fmt.Sprintf("(forall ((a Int)) (! (=> (and (<= o1 a) (< a (+ o1 %s))) (= (select V1 a) (select V2 (+ o2 (- a o1))))) :pattern ((select V1 a))))", n)
	}
	catHyp := func(m string) string {
		return fmt.Sprintf("(forall ((a Int)) (! (=> (and (<= o3 a) (< a (+ o3 %s))) (= (select V2 (+ (+ o2 n) (- a o3))) (select V3 a))) :pattern ((select V3 a))))", m)
	}
	nnHyp := func(n string) string {
		return fmt.Sprintf("(forall ((a Int)) (! (=> (and (<= o1 a) (< a (+ o1 %s))) (>= (select V1 a) 0)) :pattern ((select V1 a))))", n)
	}
	ptHyp := func(n string) string {
		return fmt.Sprintf("(forall ((a Int)) (! (=> (and (<= o1 a) (< a (+ o1 %s)) (not (= a j))) (= (select V1 a) (select V2 a))) :pattern ((select V1 a))))", n)
	}
	cHyp := func(n, c string) string {
		return fmt.Sprintf("(forall ((a Int)) (! (=> (and (<= o1 a) (< a (+ o1 %s))) (= (select V1 a) %s)) :pattern ((select V1 a))))", n, c)
	}
	const extAx = `(forall ((A (Array Int Int)) (B (Array Int Int)) (p1 Int) (p2 Int) (l Int)) (! (=> (forall ((a Int)) (! (=> (and (<= p1 a) (< a (+ p1 l))) (= (select A a) (select B (+ p2 (- a p1))))) :pattern ((select A a)))) (= (isum A p1 l) (isum B p2 l))) :pattern ((isum A p1 l) (isum B p2 l))))`
	return []*FuncResult{
		mk("isum-empty", "sum over an empty range is 0", []string{"(<= n 0)"}, "(= (isum V1 o1 n) 0)"),
		mk("isum-one", "sum over a one-element range is that element", []string{"(= n 1)"}, "(= (isum V1 o1 n) (select V1 o1))"),
		mk("isum-step", "one more element of the same range", []string{"(>= n 0)", "(= m (+ n 1))"}, "(= (isum V1 o1 m) (+ (isum V1 o1 n) (select V1 (+ o1 n))))"),
		mk("isum-ext-base", "extensionality of sums, base case (n <= 0)", []string{"(<= n 0)"}, "(= (isum V1 o1 n) (isum V2 o2 n))"),
		mk("isum-ext-step", "extensionality of sums, induction step",
			[]string{"(> n 0)", "(=> " + extHyp("(- n 1)") + " (= (isum V1 o1 (- n 1)) (isum V2 o2 (- n 1))))", extHyp("n")},
			"(= (isum V1 o1 n) (isum V2 o2 n))"),
		mk("isum-nonneg-base", "sum of non-negative summands is non-negative, base case", []string{"(<= n 0)"}, "(>= (isum V1 o1 n) 0)"),
		mk("isum-nonneg-step", "sum of non-negative summands is non-negative, induction step",
			[]string{"(> n 0)", "(=> " + nnHyp("(- n 1)") + " (>= (isum V1 o1 (- n 1)) 0))", nnHyp("n")},
			"(>= (isum V1 o1 n) 0)"),
		mk("isum-point-base", "a one-point change of the summands, base case (no position in an empty range)", []string{"(<= n 0)", "(<= o1 j)", "(< j (+ o1 n))"}, "false"),
		mk("isum-point-step", "a one-point change of the summands changes the sum by the difference at that point, induction step",
			[]string{extAx, "(> n 0)", "(<= o1 j)", "(< j (+ o1 n))", ptHyp("n"),
				"(=> (and (< j (+ o1 (- n 1))) " + ptHyp("(- n 1)") + ") (= (isum V2 o1 (- n 1)) (+ (isum V1 o1 (- n 1)) (- (select V2 j) (select V1 j)))))"},
			"(= (isum V2 o1 n) (+ (isum V1 o1 n) (- (select V2 j) (select V1 j))))"),
		mk("isum-zeros-base", "all-zero summands sum to 0, base case", []string{"(<= n 0)"}, "(= (isum V1 o1 n) 0)"),
		mk("isum-zeros-step", "all-zero summands sum to 0, induction step",
			[]string{"(> n 0)", "(=> " + cHyp("(- n 1)", "0") + " (= (isum V1 o1 (- n 1)) 0))", cHyp("n", "0")}, "(= (isum V1 o1 n) 0)"),
		mk("isum-ones-base", "all-one summands over n >= 0 positions sum to n, base case", []string{"(= n 0)"}, "(= (isum V1 o1 n) n)"),
		mk("isum-ones-step", "all-one summands over n >= 0 positions sum to n, induction step",
			[]string{"(> n 0)", "(=> " + cHyp("(- n 1)", "1") + " (= (isum V1 o1 (- n 1)) (- n 1)))", cHyp("n", "1")}, "(= (isum V1 o1 n) n)"),
		mk("isum-snoc", "a range extending another (possibly of another array that agrees with it) by one element", []string{extAx, "(>= n 0)", extHyp("n")},
			"(= (isum V2 o2 (+ n 1)) (+ (isum V1 o1 n) (select V2 (+ o2 n))))"),
		mk("isum-concat-base", "sum over a concatenation, base case (nothing appended)",
			[]string{extAx, "(>= n 0)", "(= m 0)", extHyp("n")},
			"(= (isum V2 o2 (+ n m)) (+ (isum V1 o1 n) (isum V3 o3 m)))"),
		mk("isum-concat-step", "sum over a concatenation, induction step on the appended length",
			[]string{extAx, "(>= n 0)", "(> m 0)", extHyp("n"), catHyp("m"),
				"(=> " + catHyp("(- m 1)") + " (= (isum V2 o2 (- (+ n m) 1)) (+ (isum V1 o1 n) (isum V3 o3 (- m 1)))))"},
			"(= (isum V2 o2 (+ n m)) (+ (isum V1 o1 n) (isum V3 o3 m)))"),
	}
}

// plainCodecResults: the `plaincodec` obligations of the property being checked.
// Each is decided from go/types (method sets of T and *T) and rendered as a
// trivial query so that it is reported, counted and replayed like any other
// obligation: goal `true` when no codec method is declared, `false` (with the
// offending method named in the clause text) otherwise.
func plainCodecResults(l *Loaded, cs *Contracts, prop string) []*FuncResult {
	var out []*FuncResult
	for _, pc := range cs.PlainCodec {
		if prop != "" && len(pc.Props) > 0 && !hasProp(pc.Props, prop) {
			continue
		}
		for _, tn := range pc.Types {
			obj := l.Pkg.Pkg.Scope().Lookup(tn)
			goal, src := "true", "type "+tn+" declares no MarshalJSON / UnmarshalJSON / MarshalText / UnmarshalText"
			if obj == nil {
				goal, src = "false", "plaincodec: no type named "+tn
			} else {
				for _, t := range []types.Type{obj.Type(), types.NewPointer(obj.Type())} {
					ms := types.NewMethodSet(t)
					for _, m := range []string{"MarshalJSON", "UnmarshalJSON", "MarshalText", "UnmarshalText"} {
						if ms.Lookup(l.Pkg.Pkg, m) != nil {
							goal, src = "false", "type "+tn+" declares "+m+": encoding/json no longer treats it field by field"
						}
					}
				}
			}
			b := &Builder{sorts: map[string]bool{}, declared: map[string]bool{}, strLits: map[string]string{}, typeIDs: map[string]int{}}
			o := &Obligation{Name: "types/" + tn + "/plain-codec", Kind: "structural", Fn: "types(" + tn + ")", Pos: b.pos(), Goal: goal, Src: src, Where: fmt.Sprintf("contracts_verif.go:%d", pc.Line), Props: pc.Props}
			out = append(out, &FuncResult{Name: "types(" + tn + ")/plain-codec", Builder: b, Obls: []*Obligation{o}})
		}
	}
	return out
}
