package main

import (
	"fmt"
	"go/types"

	"golang.org/x/tools/go/ssa"
)

// localCell is a cell allocated by an Alloc instruction of a frame.
type localCell struct {
	alloc *ssa.Alloc
	ref   Term
	elem  types.Type
}

// rootAlloc returns the Alloc an address expression is derived from, if any.
func rootAlloc(v ssa.Value) *ssa.Alloc {
	for i := 0; i < 16; i++ {
		switch t := v.(type) {
		case *ssa.Alloc:
			return t
		case *ssa.FieldAddr:
			v = t.X
		case *ssa.IndexAddr:
			if _, ok := t.X.Type().Underlying().(*types.Pointer); ok {
				v = t.X
			} else {
				return nil
			}
		default:
			return nil
		}
	}
	return nil
}

// markEscapes records, flow-sensitively, the local cells whose address leaves
// the function body at this instruction: passed to a call, stored, put in an
// interface, merged, returned, sent, or captured by a closure that is itself
// passed on. Loads, stores *to* the cell, derived field/element addresses and
// closures that are only called directly or deferred do not count.
func (fr *Frame) markEscapes(ins ssa.Instruction) {
	if fr.escaped == nil {
		fr.escaped = map[*ssa.Alloc]bool{}
	}
	switch t := ins.(type) {
	case *ssa.DebugRef, *ssa.FieldAddr, *ssa.IndexAddr:
		return
	case *ssa.UnOp:
		return
	case *ssa.Store:
		if a := rootAlloc(t.Val); a != nil {
			fr.escaped[a] = true
		}
		return
	case *ssa.MakeClosure:
		if closureEscapes(t) {
			for _, b := range t.Bindings {
				if a := rootAlloc(b); a != nil {
					fr.escaped[a] = true
				}
			}
		}
		return
	}
	for _, op := range ins.Operands(nil) {
		if op == nil || *op == nil {
			continue
		}
		if a := rootAlloc(*op); a != nil {
			fr.escaped[a] = true
		}
	}
}

// assumeNotLocal: a reference obtained from a callee (or from memory) can denote
// a cell of this function only if that cell's address has escaped; for every
// cell that has not, the reference is different from it.
func (e *Enc) assumeNotLocal(fr *Frame, v Term, t types.Type) {
	refs := e.refPaths(t, v, 2)
	if len(refs) == 0 {
		return
	}
	var cs []Term
	for f := fr; f != nil; f = f.parent {
		for _, lc := range f.locals {
			if !f.escaped[lc.alloc] {
				for _, ref := range refs {
					cs = append(cs, "(not (= "+ref+" "+lc.ref+"))")
				}
			}
		}
	}
	if len(cs) > 0 && len(cs) <= 24 {
		e.B.assume(and(cs...))
	}
}

// restoreLocals re-establishes, after a whole-heap havoc (a callee or loop that
// "modifies heaps", or an abstracted call), the contents of the local cells
// whose address has not left the function so far: no callee can reach them.
// With loopBlocks set, cells whose address escapes anywhere in the loop, or that
// are stored to inside the loop, are excluded as well.
func (e *Enc) restoreLocals(fr *Frame, pre, post *State, loopBlocks map[*ssa.BasicBlock]bool) {
	for f := fr; f != nil; f = f.parent {
		for _, lc := range f.locals {
			if f.escaped[lc.alloc] {
				continue
			}
			if loopBlocks != nil && f == fr && storedIn(lc.alloc, loopBlocks) {
				continue
			}
			k := e.B.heapName(lc.elem)
			srt := e.B.heapSort(lc.elem)
			was, ok := pre.m[k]
			if !ok {
				if pre.epoch != "" {
					continue
				}
				was = e.get(pre, k, srt)
			}
			now, ok := post.m[k]
			if !ok {
				now = e.get(post, k, srt)
			}
			if was == now {
				continue
			}
			e.B.assume(fmt.Sprintf("(= (select %s %s) (select %s %s))", now, lc.ref, was, lc.ref))
		}
		loopBlocks = nil
	}
}
