package main

import (
	"fmt"
	"go/types"

	"golang.org/x/tools/go/ssa"
)

// localCell is a cell allocated by an Alloc instruction of a frame.
type localCell struct {
	alloc *ssa.Alloc
	ref   Term
	elem  types.Type
}

// restoreLocals re-establishes, after a whole-heap havoc (a callee or loop that
// "modifies heaps", or an abstracted call), the contents of the local cells
// whose address provably never leaves the function (see localEscapes): no callee
// can reach them. With loopBlocks set, cells stored to inside the loop are
// excluded as well.
func (e *Enc) restoreLocals(fr *Frame, pre, post *State, loopBlocks map[*ssa.BasicBlock]bool) {
	for f := fr; f != nil; f = f.parent {
		for _, lc := range f.locals {
			if localEscapes(lc.alloc) {
				continue
			}
			if loopBlocks != nil && f == fr && storedIn(lc.alloc, loopBlocks) {
				continue
			}
			k := e.B.heapName(lc.elem)
			srt := e.B.heapSort(lc.elem)
			was, ok := pre.m[k]
			if !ok {
				if pre.epoch != "" {
					continue
				}
				was = e.get(pre, k, srt)
			}
			now, ok := post.m[k]
			if !ok {
				now = e.get(post, k, srt)
			}
			if was == now {
				continue
			}
			e.B.assume(fmt.Sprintf("(= (select %s %s) (select %s %s))", now, lc.ref, was, lc.ref))
		}
		// inner frames' loops do not cover the caller's blocks
		loopBlocks = nil
	}
}
