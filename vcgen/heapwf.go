package main

import (
	"fmt"
	"go/types"
	"strings"
)

// Well-typed-heap invariant. Every reference stored in memory (a slice's backing
// array, a pointer) denotes an object that exists in that state, i.e. lies at or
// above the state's allocation mark; objects allocated later get strictly
// smaller references, so nothing stored earlier can alias them. Code-side loads
// assume this per value; specifications read memory under quantifiers, so for
// every *base* heap constant (entry heaps, loop-havocked heaps, callee-havocked
// heaps) the invariant is stated once as an axiom over all cells. Heaps derived
// from those by stores need no axiom: a read of them reduces to a stored value
// (whose reference is known) or to a read of the base heap.
//
// The axioms are opt-in per function (contract clause "heapfacts"): they are
// sound everywhere but give the solvers extra instantiation work, and several
// existential goals that discharge in a fraction of a second without them time
// out with them.

func (b *Builder) noteHeapElem(key string, t types.Type) {
	if b.heapElem == nil {
		b.heapElem = map[string]types.Type{}
	}
	if _, ok := b.heapElem[key]; !ok {
		b.heapElem[key] = t
	}
}

// refPaths lists accessor chains (as format strings over the cell term) that
// reach reference-carrying components of t, up to the given depth.
func (e *Enc) refPaths(t types.Type, cell Term, depth int) []Term {
	switch u := t.Underlying().(type) {
	case *types.Slice:
		return []Term{"(sarr " + cell + ")"}
	case *types.Pointer:
		return []Term{"(pref " + cell + ")"}
	case *types.Map, *types.Chan:
		return []Term{cell}
	case *types.Struct:
		if depth <= 0 {
			return nil
		}
		var out []Term
		for i := 0; i < u.NumFields(); i++ {
			out = append(out, e.refPaths(u.Field(i).Type(), e.B.structField(t, cell, i), depth-1)...)
		}
		return out
	}
	return nil
}

// heapWFAxiom returns the assertion for base heap constant name (state key
// key), or "" when the element type carries no references.
func (e *Enc) heapWFAxiom(name, key string, alloc Term) string {
	if !strings.HasPrefix(key, "HS.") || e.con == nil || !e.con.HeapFacts {
		return ""
	}
	t := e.B.heapElem[key]
	if t == nil {
		return ""
	}
	if len(e.con.HeapFactTypes) > 0 {
		want := false
		for _, tn := range e.con.HeapFactTypes {
			if wt := e.lookupType(tn); wt != nil && e.B.heapName(wt) == key {
				want = true
			}
		}
		if !want {
			return ""
		}
	}
	cell := fmt.Sprintf("(select (select %s wf.r) wf.i)", name)
	paths := e.refPaths(t, cell, 2)
	if len(paths) == 0 {
		return ""
	}
	var cs []string
	for _, p := range paths {
		cs = append(cs, fmt.Sprintf("(>= %s %s)", p, alloc))
	}
	// only cells of objects that exist in that state: a callee that allocates
	// describes its fresh objects as (so far unconstrained) cells below the mark
	return fmt.Sprintf("(assert (forall ((wf.r Int) (wf.i Int)) (! (=> (>= wf.r %s) %s) :pattern (%s))))", alloc, and(cs...), cell)
}
