package main

import (
	"go/types"

	"golang.org/x/tools/go/ssa"
)

var cellCache = map[*ssa.Function]map[types.Object]ssa.Value{}

// cellOf returns the Alloc holding a source variable that go/ssa keeps in
// memory (its address is taken or it is captured by a closure), or nil for a
// register variable.
func cellOf(fn *ssa.Function, obj types.Object) ssa.Value {
	m, ok := cellCache[fn]
	if !ok {
		m = map[types.Object]ssa.Value{}
		for _, b := range fn.Blocks {
			for _, ins := range b.Instrs {
				if d, ok := ins.(*ssa.DebugRef); ok && d.IsAddr && d.Object() != nil {
					if a, isAlloc := d.X.(*ssa.Alloc); isAlloc {
						m[d.Object()] = a
					}
				}
			}
		}
		cellCache[fn] = m
	}
	return m[obj]
}
