package main

import (
	"fmt"
	"go/constant"
	"go/token"
	"go/types"
	"math/big"
	"sort"
	"strings"

	"golang.org/x/tools/go/ssa"
)

// ---------------------------------------------------------------------------
// Values, places, state
// ---------------------------------------------------------------------------

const (
	PDeref = iota
	PField
	PIndex
)

// Place is an lvalue known at generation time: the object a pointer term
// points to, a field of a place, or an element of an array-typed place.
type Place struct {
	Kind  int
	Ptr   Term // PDeref
	Base  *Place
	Field int
	Idx   Term
	Typ   types.Type // type of the content
}

// Val is the encoder's representation of an SSA value.
type Val struct {
	T     Term
	P     *Place // interior pointer (pointer-typed value without an SMT term)
	Tup   []Val
	Fn    *ssa.Function // statically known function value
	Binds []Val
	Typ   types.Type
}

type State struct {
	m map[string]Term
	// epoch is non-empty once every heap has been havocked (a callee or loop
	// that "modifies heaps"): a heap first read afterwards is a fresh
	// constant of that epoch, not the entry version.
	epoch string
}

func (s *State) clone() *State {
	n := &State{m: make(map[string]Term, len(s.m)), epoch: s.epoch}
	for k, v := range s.m {
		n.m[k] = v
	}
	return n
}

type encErr struct{ msg string }

func fail(format string, args ...any) {
	panic(encErr{fmt.Sprintf(format, args...)})
}

// Obligation is one proof goal: Goal must be valid under lines[0:Pos].
type Obligation struct {
	Name        string
	Kind        string
	Fn          string
	Props       []string
	Pos         int
	Goal        Term
	Src         string
	Where       string
	Cover       bool   // vacuity guard: the goal must be satisfiable
	Cases       []Term // optional case split (conditions of the control-flow edges merged just before): tried when the whole goal is undecided
	Model       []ModelVar
	ClauseProps []string
	Group       string // proof group of the clause (Clause.Group)
}

type ModelVar struct {
	Name string // source-level name
	Term Term
	Type string // go type string
}

type LoopInfo struct {
	Header  *ssa.BasicBlock
	Blocks  map[*ssa.BasicBlock]bool
	Ordinal int
}

type Frame struct {
	fn        *ssa.Function
	con       *Contract
	id        int
	depth     int
	vals      map[ssa.Value]Val
	reach     map[*ssa.BasicBlock]Term
	out       map[*ssa.BasicBlock]*State
	edge      map[*ssa.BasicBlock][]Term // per block: condition of edge to Succs[i]
	inConds   map[*ssa.BasicBlock][]Term // per block: conditions of its reachable incoming forward edges
	entry     *State
	params    []Val
	binds     []Val
	pc        Term
	loops     map[*ssa.BasicBlock]*LoopInfo
	rpo       []*ssa.BasicBlock
	rpoIdx    map[*ssa.BasicBlock]int
	parent    *Frame
	callIdx   map[string]int // per-callee call ordinal (for anchored asserts)
	ghostVals map[string]Val // contract ghost params (top frame)
	iterInfo  map[ssa.Value]*iterState
	curBlock  *ssa.BasicBlock
	curIdx    int
	ord       map[ssa.Instruction]int
	ordName   map[ssa.Instruction]string
	locals    []localCell
	escaped   map[*ssa.Alloc]bool
}

// anchored checks the "//@ at <kind> <name>#n assert" clauses that name the
// instruction being encoded.
func (e *Enc) anchored(fr *Frame, kind string, ins ssa.Instruction, st *State, reach Term) {
	if fr.con == nil || ins == nil {
		return
	}
	for _, aa := range fr.con.Asserts {
		if aa.Kind != kind {
			continue
		}
		if kind == "call" {
			name := fr.ordName[ins]
			short := name
			if i := strings.LastIndex(name, "."); i >= 0 {
				short = name[i+1:]
			}
			if aa.Callee != name && aa.Callee != short {
				continue
			}
		}
		if aa.N != 0 && aa.N != fr.ord[ins] {
			continue
		}
		if aa.Bump != "" {
			// event counter: +1 on the paths that reach this call
			key, srt, _ := e.ghostKey(aa.Bump)
			cur := e.get(st, key, srt)
			st.m[key] = e.B.define("bump."+aa.Bump, srt, ite(reach, "(+ "+cur+" 1)", cur))
			continue
		}
		if !clauseActive(aa.Clause) {
			continue
		}
		ctx := e.frameCtx(fr, st, fr.curBlock, fr.curIdx, nil)
		ctx.what = fmt.Sprintf("assert at %s %s#%d in %s", kind, aa.Callee, aa.N, contractName(fr.fn))
		if kind == "call" {
			// $arg0, $arg1, ...: the argument values of the anchored call (an
			// argument is often an unnamed intermediate value)
			if ci, ok := ins.(ssa.CallInstruction); ok {
				for k, a := range ci.Common().Args {
					v := e.val(fr, a)
					ctx = ctx.bindName(fmt.Sprintf("$arg%d", k), CE{T: v.T, Typ: a.Type(), P: v.P, Fn: v.Fn})
				}
			}
		}
		g := e.compileBool(ctx, aa.Clause.Expr)
		o := e.addObl(fr, "assert", implies(reach, g), aa.Clause.Src, ins.Pos(), aa.Clause.Props)
		o.Name = fmt.Sprintf("%s/assert@%s:%s#%d", contractName(e.top), kind, aa.Callee, fr.ord[ins])
	}
}

type iterState struct {
	mapVal  Val
	mapType *types.Map
	visited string // state key
	isStr   bool
}

type Enc struct {
	L                 *Loaded
	CS                *Contracts
	B                 *Builder
	top               *ssa.Function
	con               *Contract
	obls              []*Obligation
	notes             []string
	inst              int
	exact, abstracted int
	calleesByContract map[string]bool
	calleesInlined    map[string]bool
	calleesHavoc      map[string]bool
	externsUsed       map[string]bool
	entryState        *State
	stack             []*ssa.Function
	oblCount          map[string]int
	specFunsDeclared  map[string]bool
	topNames          map[string]CE
	allocLimit        Term
	curCalleeMods     map[string]bool // deepMods of the callee whose contract is being applied
	deepModsCache     map[*ssa.Function]map[string]bool
	usesSum           bool
	retConds          []Term // reach conditions of the top-level function's return sites
	boundSorts        map[string]string
	vmaps             map[string]string
	vmapList          []vmapInfo
}

func newEnc(l *Loaded, cs *Contracts, fn *ssa.Function, con *Contract) *Enc {
	return &Enc{L: l, CS: cs, B: newBuilder(), top: fn, con: con,
		calleesByContract: map[string]bool{}, calleesInlined: map[string]bool{}, calleesHavoc: map[string]bool{},
		externsUsed: map[string]bool{}, oblCount: map[string]int{}, specFunsDeclared: map[string]bool{}}
}

func (e *Enc) note(format string, args ...any) {
	s := fmt.Sprintf(format, args...)
	for _, n := range e.notes {
		if n == s {
			return
		}
	}
	e.notes = append(e.notes, s)
}

// ---------------------------------------------------------------------------
// State access
// ---------------------------------------------------------------------------

// get returns the current term for a state key, declaring the entry version
// on demand.
func (e *Enc) get(st *State, key, sort string) Term {
	stateSorts[key] = sort
	if t, ok := st.m[key]; ok {
		return t
	}
	if st.epoch != "" && (strings.HasPrefix(key, "HS.") || strings.HasPrefix(key, "HM.")) {
		// a heap first touched after a whole-heap havoc: fresh, positional
		name := e.baseHeap(st, key, "@"+st.epoch, sort)
		st.m[key] = name
		return name
	}
	name := key + "@entry"
	decl := fmt.Sprintf("(declare-const %s %s)", name, sort)
	if strings.HasPrefix(key, "HS.") {
		e.B.declTop("alloc@entry", "(declare-const alloc@entry Int)\n(assert (<= alloc@entry 0))")
		if ax := e.heapWFAxiom(name, key, "alloc@entry"); ax != "" {
			decl += "\n" + ax
		}
	}
	switch key {
	case "alloc":
		// fresh references are negative; global cells have positive references
		decl += fmt.Sprintf("\n(assert (<= %s 0))", name)
	case "ghost.sends", "ghost.nilsends", "ghost.recvs", "ghost.closes":
		// event counters start non-negative
		decl += fmt.Sprintf("\n(assert (forall ((c Int)) (! (>= (select %s c) 0) :pattern ((select %s c)))))", name, name)
	}
	e.B.declTop(name, decl)
	return name
}

// baseHeap declares a fresh (havocked) version of a heap at the current position
// together with its well-typed-heap axiom for the state's allocation mark.
func (e *Enc) baseHeap(st *State, key, tag, sort string) Term {
	n := e.B.declConst(key+tag, sort)
	if ax := e.heapWFAxiom(n, key, e.alloc(st)); ax != "" {
		e.B.emit(ax)
	}
	return n
}

func (e *Enc) set(st *State, key string, sort string, t Term) {
	st.m[key] = e.B.define(key, sort, t)
}

func (e *Enc) heapOf(st *State, t types.Type) Term {
	return e.get(st, e.B.heapName(t), e.B.heapSort(t))
}

func (e *Enc) alloc(st *State) Term { return e.get(st, "alloc", "Int") }

// newRef allocates a fresh object reference (below every existing one).
func (e *Enc) newRef(st *State) Term {
	a := e.alloc(st)
	r := e.B.define("ref", "Int", "(- "+a+" 1)")
	st.m["alloc"] = r
	return r
}

func (e *Enc) havocAlloc(st *State) {
	old := e.alloc(st)
	n := e.B.declConst("alloc", "Int")
	e.B.assume("(<= " + n + " " + old + ")")
	st.m["alloc"] = n
}

// loadCell reads the object (ref, idx) of type t.
func (e *Enc) loadCell(st *State, ptr Term, t types.Type) Term {
	h := e.heapOf(st, t)
	return fmt.Sprintf("(select (select %s (pref %s)) (pidx %s))", h, ptr, ptr)
}

func (e *Enc) storeCell(st *State, ptr Term, t types.Type, v Term) {
	h := e.heapOf(st, t)
	nh := fmt.Sprintf("(store %s (pref %s) (store (select %s (pref %s)) (pidx %s) %s))", h, ptr, h, ptr, ptr, v)
	e.set(st, e.B.heapName(t), e.B.heapSort(t), nh)
	e.storeSumFacts(e.B.sortOf(t), fmt.Sprintf("(select %s (pref %s))", h, ptr), "(pidx "+ptr+")", v)
}

func (e *Enc) getPlace(st *State, p *Place) Term {
	switch p.Kind {
	case PDeref:
		return e.loadCell(st, p.Ptr, p.Typ)
	case PField:
		return e.B.structField(p.Base.Typ, e.getPlace(st, p.Base), p.Field)
	case PIndex:
		return fmt.Sprintf("(select %s %s)", e.getPlace(st, p.Base), p.Idx)
	}
	panic("bad place")
}

func (e *Enc) setPlace(st *State, p *Place, v Term) {
	switch p.Kind {
	case PDeref:
		e.storeCell(st, p.Ptr, p.Typ, v)
	case PField:
		base := e.getPlace(st, p.Base)
		base = e.B.define("sv", e.B.sortOf(p.Base.Typ), base)
		e.setPlace(st, p.Base, e.B.structUpdate(p.Base.Typ, base, p.Field, v))
	case PIndex:
		base := e.getPlace(st, p.Base)
		e.setPlace(st, p.Base, fmt.Sprintf("(store %s %s %s)", base, p.Idx, v))
	}
}

// placeOf turns a pointer-typed Val into a Place for its pointee.
func (e *Enc) placeOf(v Val, elem types.Type) *Place {
	if v.P != nil {
		return v.P
	}
	return &Place{Kind: PDeref, Ptr: v.T, Typ: elem}
}

// rootHeap is the heap a store through p modifies.
func (e *Enc) rootHeap(p *Place) string {
	for p.Kind != PDeref {
		p = p.Base
	}
	return e.B.heapName(p.Typ)
}

// ---------------------------------------------------------------------------
// Well-formedness assumptions
// ---------------------------------------------------------------------------

func (e *Enc) wf(v Term, t types.Type, st *State, depth int) Term {
	switch u := t.Underlying().(type) {
	case *types.Basic:
		if ii, ok := intInfoOf(t); ok {
			return ii.inRange(v)
		}
		if u.Info()&types.IsString != 0 {
			// a string's length is a non-negative int (the runtime cannot make a longer one)
			return "(and (>= (strlen " + v + ") 0) (<= (strlen " + v + ") 9223372036854775807))"
		}
	case *types.Pointer:
		return "(and (>= (pref " + v + ") " + e.alloc(st) + ") (>= (pidx " + v + ") 0))"
	case *types.Slice:
		// cap * sizeof(elem) never exceeds the address space (makeslice and the
		// array types themselves guarantee it), so lengths of slices with larger
		// elements are correspondingly smaller
		return fmt.Sprintf("(and (>= (sarr %s) %s) (>= (soff %s) 0) (>= (slen %s) 0) (<= (slen %s) (scap %s)) (<= (scap %s) %d) (<= (soff %s) 9223372036854775807) (=> (= (sarr %s) 0) (= (scap %s) 0)))",
			v, e.alloc(st), v, v, v, v, v, maxCapOf(u.Elem()), v, v, v)
	case *types.Chan:
		// channels of different element types are different channels
		e.B.declTop("chtype", "(declare-fun chtype (Int) Int)")
		return fmt.Sprintf("(and (>= %s %s) (or (= %s 0) (= (chtype %s) %d)))", v, e.alloc(st), v, v, e.B.typeID(u.Elem()))
	case *types.Map:
		return "(>= " + v + " " + e.alloc(st) + ")"
	case *types.Interface:
		// a numeric dynamic type bounds the payload (MakeInterface stores the
		// in-range value of that type)
		return e.ifacePayloadWF(v)
	case *types.Struct:
		if depth <= 0 {
			return "true"
		}
		var parts []Term
		for i := 0; i < u.NumFields(); i++ {
			ft := u.Field(i).Type()
			switch ft.Underlying().(type) {
			case *types.Basic, *types.Pointer, *types.Slice, *types.Map, *types.Struct:
				parts = append(parts, e.wf(e.B.structField(t, v, i), ft, st, depth-1))
			}
		}
		return and(parts...)
	}
	return "true"
}

var gcSizes = types.SizesFor("gc", "amd64")

func maxCapOf(elem types.Type) (n int64) {
	n = 9223372036854775807
	defer func() {
		if recover() != nil {
			n = 9223372036854775807
		}
	}()
	if sz := gcSizes.Sizeof(elem); sz > 1 {
		n = 9223372036854775807 / sz
	}
	return n
}

func (e *Enc) assumeWF(v Term, t types.Type, st *State) {
	w := e.wf(v, t, st, 2)
	if w != "true" {
		e.B.assume(w)
	}
}

func (e *Enc) freshOf(prefix string, t types.Type, st *State) Term {
	n := e.B.declConst(prefix, e.B.sortOf(t))
	e.assumeWF(n, t, st)
	return n
}

// ---------------------------------------------------------------------------
// Constants
// ---------------------------------------------------------------------------

func (e *Enc) constVal(c *ssa.Const) Val {
	t := c.Type()
	if c.Value == nil {
		return Val{T: e.B.zeroOf(t), Typ: t}
	}
	switch u := t.Underlying().(type) {
	case *types.Basic:
		switch {
		case u.Info()&types.IsBoolean != 0:
			if constant.BoolVal(c.Value) {
				return Val{T: "true", Typ: t}
			}
			return Val{T: "false", Typ: t}
		case u.Info()&types.IsInteger != 0:
			bi, ok := constant.Val(constant.ToInt(c.Value)).(*big.Int)
			if !ok {
				i64, _ := constant.Int64Val(constant.ToInt(c.Value))
				bi = big.NewInt(i64)
			}
			return Val{T: intLit(bi), Typ: t}
		case u.Info()&types.IsString != 0:
			return Val{T: e.B.strLit(constant.StringVal(c.Value)), Typ: t}
		case u.Info()&types.IsFloat != 0:
			r := constant.ToFloat(c.Value)
			num, _ := constant.Val(constant.Num(r)).(*big.Int)
			den, _ := constant.Val(constant.Denom(r)).(*big.Int)
			if num == nil {
				n64, _ := constant.Int64Val(constant.Num(r))
				num = big.NewInt(n64)
			}
			if den == nil {
				d64, _ := constant.Int64Val(constant.Denom(r))
				den = big.NewInt(d64)
			}
			neg := num.Sign() < 0
			if neg {
				num = new(big.Int).Neg(num)
			}
			tm := fmt.Sprintf("(/ %s.0 %s.0)", num.String(), den.String())
			if neg {
				tm = "(- " + tm + ")"
			}
			return Val{T: "(fin " + tm + ")", Typ: t}
		}
	}
	fail("unsupported constant %s", c)
	return Val{}
}

// ---------------------------------------------------------------------------
// Frames and value lookup
// ---------------------------------------------------------------------------

func (e *Enc) val(fr *Frame, v ssa.Value) Val {
	switch x := v.(type) {
	case *ssa.Const:
		return e.constVal(x)
	case *ssa.Function:
		return Val{T: ilit(int64(e.funcID(x))), Fn: x, Typ: x.Type()}
	case *ssa.Global:
		// pointer to the global's cell: one dedicated ref per global
		ref := e.globalRef(x)
		return Val{T: "(mkptr " + ref + " 0)", Typ: x.Type()}
	case *ssa.Builtin:
		return Val{Typ: x.Type()}
	}
	if r, ok := fr.vals[v]; ok {
		return r
	}
	fail("value %s (%T) used before definition in %s", v.Name(), v, fr.fn.Name())
	return Val{}
}

func (e *Enc) funcID(fn *ssa.Function) int {
	return e.B.typeID(types.NewNamed(types.NewTypeName(token.NoPos, nil, "func:"+fn.String(), nil), types.Typ[types.Int], nil))
}

func (e *Enc) globalRef(g *ssa.Global) Term {
	name := "gref." + sanitize(g.Pkg.Pkg.Name()+"."+g.Name())
	e.B.declTop(name, fmt.Sprintf("(declare-const %s Int)\n(assert (> %s 0))", name, name))
	return name
}

func (fr *Frame) vname(v ssa.Value) string {
	return fmt.Sprintf("%s.%d", v.Name(), fr.id)
}

// bind names a computed value.
func (e *Enc) bind(fr *Frame, v ssa.Value, t Term) {
	n := e.B.define(fr.vname(v), e.B.sortOf(v.Type()), t)
	fr.vals[v] = Val{T: n, Typ: v.Type()}
}

// ---------------------------------------------------------------------------
// CFG analysis
// ---------------------------------------------------------------------------

func (fr *Frame) analyze() {
	fn := fr.fn
	seen := map[*ssa.BasicBlock]bool{}
	var post []*ssa.BasicBlock
	var dfs func(b *ssa.BasicBlock)
	dfs = func(b *ssa.BasicBlock) {
		seen[b] = true
		for _, s := range b.Succs {
			if !seen[s] {
				dfs(s)
			}
		}
		post = append(post, b)
	}
	dfs(fn.Blocks[0])
	fr.rpoIdx = map[*ssa.BasicBlock]int{}
	for i := len(post) - 1; i >= 0; i-- {
		fr.rpoIdx[post[i]] = len(fr.rpo)
		fr.rpo = append(fr.rpo, post[i])
	}
	// loops: back edge p->h where h dominates p
	fr.loops = map[*ssa.BasicBlock]*LoopInfo{}
	for _, b := range fr.rpo {
		for _, s := range b.Succs {
			if s.Dominates(b) {
				li := fr.loops[s]
				if li == nil {
					li = &LoopInfo{Header: s, Blocks: map[*ssa.BasicBlock]bool{s: true}}
					fr.loops[s] = li
				}
				// natural loop: all blocks that reach b without passing h
				var stack []*ssa.BasicBlock
				if !li.Blocks[b] {
					li.Blocks[b] = true
					stack = append(stack, b)
				}
				for len(stack) > 0 {
					x := stack[len(stack)-1]
					stack = stack[:len(stack)-1]
					for _, p := range x.Preds {
						if !li.Blocks[p] && seen[p] {
							li.Blocks[p] = true
							stack = append(stack, p)
						}
					}
				}
			} else if fr.rpoIdx[s] <= fr.rpoIdx[b] && seen[s] {
				fail("irreducible control flow in %s", fn.Name())
			}
		}
	}
	// ordinals by header block index (source order)
	var hs []*ssa.BasicBlock
	for h := range fr.loops {
		hs = append(hs, h)
	}
	sort.Slice(hs, func(i, j int) bool { return hs[i].Index < hs[j].Index })
	for i, h := range hs {
		fr.loops[h].Ordinal = i
	}
}

func isBackEdge(from, to *ssa.BasicBlock) bool { return to.Dominates(from) }

// ---------------------------------------------------------------------------
// Encoding a function body
// ---------------------------------------------------------------------------

type retInfo struct {
	cond Term
	vals []Val
	st   *State
}

// encodeBody encodes fr.fn starting from state st under path condition fr.pc.
// It returns the merged results, the merged exit state and the condition
// under which the body returns normally.
func (e *Enc) encodeBody(fr *Frame, st *State) ([]Val, *State, Term) {
	fn := fr.fn
	if len(fn.Blocks) == 0 {
		fail("function %s has no body", fn.Name())
	}
	for _, f := range e.stack {
		if f == fn {
			fail("recursive inlining of %s", fn.Name())
		}
	}
	e.stack = append(e.stack, fn)
	defer func() { e.stack = e.stack[:len(e.stack)-1] }()

	fr.analyze()
	// static (source-order) ordinals of calls per callee and of selects, for
	// "//@ at call f#n assert" / "//@ at select #n assert"
	fr.ord = map[ssa.Instruction]int{}
	fr.ordName = map[ssa.Instruction]string{}
	if fr.con != nil && len(fr.con.Asserts) > 0 {
		cnt := map[string]int{}
		for _, b := range fn.Blocks {
			for _, ins := range b.Instrs {
				switch t := ins.(type) {
				case *ssa.Select:
					cnt["select"]++
					fr.ord[ins] = cnt["select"]
				case *ssa.Call:
					ct := e.classify(t.Common(), nil)
					name := ct.name
					if ct.kind == "builtin" {
						continue
					}
					if strings.HasPrefix(name, "dynamic:") {
						name = "dynamic"
					}
					cnt[name]++
					fr.ord[ins] = cnt[name]
					fr.ordName[ins] = name
				}
			}
		}
	}
	fr.vals = map[ssa.Value]Val{}
	fr.reach = map[*ssa.BasicBlock]Term{}
	fr.out = map[*ssa.BasicBlock]*State{}
	fr.edge = map[*ssa.BasicBlock][]Term{}
	fr.inConds = map[*ssa.BasicBlock][]Term{}
	fr.callIdx = map[string]int{}
	fr.iterInfo = map[ssa.Value]*iterState{}
	fr.entry = st.clone()
	for i, p := range fn.Params {
		fr.vals[p] = fr.params[i]
	}
	for i, fv := range fn.FreeVars {
		fr.vals[fv] = fr.binds[i]
	}

	var rets []retInfo
	for _, b := range fr.rpo {
		var in *State
		var reach Term
		var inEdges []Term // aligned with b.Preds (non-back edges processed)
		if b == fn.Blocks[0] {
			in = st.clone()
			reach = fr.pc
		} else {
			var conds []Term
			var states []*State
			inEdges = make([]Term, len(b.Preds))
			occ := map[*ssa.BasicBlock]int{}
			for i, p := range b.Preds {
				inEdges[i] = "false"
				if isBackEdge(p, b) {
					continue
				}
				ps, ok := fr.out[p]
				if !ok {
					continue // unreachable predecessor
				}
				// which successor slot of p is this?
				k := occ[p]
				occ[p]++
				slot := -1
				cnt := 0
				for si, s := range p.Succs {
					if s == b {
						if cnt == k {
							slot = si
							break
						}
						cnt++
					}
				}
				if slot < 0 {
					fail("CFG inconsistency")
				}
				c := fr.edge[p][slot]
				inEdges[i] = c
				if c == "false" {
					continue
				}
				conds = append(conds, c)
				states = append(states, ps)
			}
			if len(conds) == 0 {
				continue // unreachable
			}
			reach = e.B.define(fmt.Sprintf("reach.%d.b%d", fr.id, b.Index), "Bool", or(conds...))
			fr.inConds[b] = conds
			in = e.mergeStates(conds, states)
		}
		fr.reach[b] = reach
		fr.curBlock = b
		cur := in
		if li := fr.loops[b]; li != nil {
			cur = e.enterLoop(fr, li, b, inEdges, in)
		} else {
			// phis
			for _, ins := range b.Instrs {
				phi, ok := ins.(*ssa.Phi)
				if !ok {
					break
				}
				e.encodePhi(fr, phi, inEdges)
			}
		}
		// instructions
		for idx, ins := range b.Instrs {
			fr.curIdx = idx
			if _, ok := ins.(*ssa.Phi); ok {
				continue
			}
			fr.markEscapes(ins)
			switch t := ins.(type) {
			case *ssa.If:
				c := e.val(fr, t.Cond).T
				fr.edge[b] = []Term{and(reach, c), and(reach, not(c))}
			case *ssa.Jump:
				fr.edge[b] = []Term{reach}
			case *ssa.Return:
				cur = e.runDefersIfAny(fr, cur, reach)
				var vs []Val
				for _, r := range t.Results {
					vs = append(vs, e.val(fr, r))
				}
				rets = append(rets, retInfo{reach, vs, cur})
				fr.edge[b] = nil
			case *ssa.Panic:
				e.onPanic(fr, t, reach)
				fr.edge[b] = nil
			default:
				cur = e.encodeInstr(fr, ins, cur, reach)
			}
		}
		fr.out[b] = cur
		// back edges: invariant preservation
		for si, s := range b.Succs {
			if isBackEdge(b, s) {
				e.checkBackEdge(fr, fr.loops[s], b, fr.edge[b][si], cur)
			}
		}
	}
	// merge returns
	if len(rets) == 0 {
		return nil, st, "false"
	}
	var conds []Term
	var states []*State
	for _, r := range rets {
		conds = append(conds, r.cond)
		states = append(states, r.st)
	}
	if fr.id == 0 {
		e.retConds = conds
	}
	outSt := e.mergeStates(conds, states)
	n := fn.Signature.Results().Len()
	res := make([]Val, n)
	for i := 0; i < n; i++ {
		rt := fn.Signature.Results().At(i).Type()
		t := rets[len(rets)-1].vals[i].T
		for k := len(rets) - 2; k >= 0; k-- {
			t = ite(rets[k].cond, rets[k].vals[i].T, t)
		}
		res[i] = Val{T: e.B.define(fmt.Sprintf("ret%d.%d", i, fr.id), e.B.sortOf(rt), t), Typ: rt}
		if len(rets) == 1 {
			res[i] = rets[0].vals[i]
			res[i].Typ = rt
		}
	}
	return res, outSt, e.B.define(fmt.Sprintf("returns.%d", fr.id), "Bool", or(conds...))
}

func (e *Enc) mergeStates(conds []Term, states []*State) *State {
	if len(states) == 1 {
		return states[0].clone()
	}
	keys := map[string]bool{}
	for _, s := range states {
		for k := range s.m {
			keys[k] = true
		}
	}
	out := &State{m: map[string]Term{}, epoch: states[0].epoch}
	for _, s := range states[1:] {
		if s.epoch != out.epoch {
			// differing havoc histories: untouched heaps are unknown after the join
			out.epoch = e.B.freshName("ep")
			break
		}
	}
	var ks []string
	for k := range keys {
		ks = append(ks, k)
	}
	sort.Strings(ks)
	for _, k := range ks {
		same := true
		first, has0 := states[0].m[k]
		for _, s := range states[1:] {
			v, has := s.m[k]
			if has != has0 || v != first {
				same = false
				break
			}
		}
		if same {
			if has0 {
				out.m[k] = first
			}
			continue
		}
		srt := e.stateSort(k)
		get := func(s *State) Term {
			if v, ok := s.m[k]; ok {
				return v
			}
			return e.get(s, k, srt)
		}
		t := get(states[len(states)-1])
		for i := len(states) - 2; i >= 0; i-- {
			t = ite(conds[i], get(states[i]), t)
		}
		out.m[k] = e.B.define(k, srt, t)
	}
	return out
}

// stateSorts remembers the sort of every state key.
var stateSorts = map[string]string{"alloc": "Int"}

func (e *Enc) stateSort(k string) string {
	if s, ok := stateSorts[k]; ok {
		return s
	}
	fail("unknown state key sort for %s", k)
	return ""
}

func (e *Enc) encodePhi(fr *Frame, phi *ssa.Phi, inEdges []Term) {
	// pick the last reachable edge as default
	var t Term
	first := true
	var fnv *ssa.Function
	var place *Place
	for i := len(phi.Edges) - 1; i >= 0; i-- {
		if inEdges[i] == "false" {
			continue
		}
		v := e.val(fr, phi.Edges[i])
		if v.P != nil {
			place = v.P
			if first {
				first = false
				continue
			}
			fail("phi of interior pointers %s in %s", phi.Name(), fr.fn.Name())
		}
		if first {
			t = v.T
			fnv = v.Fn
			first = false
		} else {
			t = ite(inEdges[i], v.T, t)
			if v.Fn != fnv {
				fnv = nil
			}
		}
	}
	if place != nil && t == "" {
		fr.vals[phi] = Val{P: place, Typ: phi.Type()}
		return
	}
	if first {
		fail("phi %s without reachable edges", phi.Name())
	}
	if _, ok := phi.Type().(*types.Tuple); ok {
		fail("tuple phi")
	}
	n := e.B.define(fr.vname(phi), e.B.sortOf(phi.Type()), t)
	fr.vals[phi] = Val{T: n, Typ: phi.Type(), Fn: fnv}
}

func (e *Enc) onPanic(fr *Frame, p *ssa.Panic, reach Term) {
	if e.con != nil && e.con.Safety && !e.con.MayPanic {
		e.addObl(fr, "unreachable-panic", not(reach), "panic "+e.L.Prog.Fset.Position(p.Pos()).String(), p.Pos(), nil)
	}
}

// ---------------------------------------------------------------------------
// Obligations
// ---------------------------------------------------------------------------

func (e *Enc) where(pos token.Pos) string {
	if !pos.IsValid() {
		return ""
	}
	p := e.L.Prog.Fset.Position(pos)
	f := p.Filename
	if i := strings.LastIndex(f, "/"); i >= 0 {
		f = f[i+1:]
	}
	return fmt.Sprintf("%s:%d", f, p.Line)
}

func (e *Enc) addObl(fr *Frame, kind string, goal Term, src string, pos token.Pos, clauseProps []string) *Obligation {
	fnName := contractName(e.top)
	e.oblCount[kind]++
	o := &Obligation{
		Kind: kind, Fn: fnName, Pos: e.B.pos(), Goal: goal, Src: src, Where: e.where(pos),
		Name:        fmt.Sprintf("%s/%s#%d", fnName, kind, e.oblCount[kind]),
		ClauseProps: clauseProps,
	}
	if e.con != nil {
		o.Props = e.con.Props
	}
	if len(clauseProps) > 0 {
		o.Props = clauseProps
	}
	e.obls = append(e.obls, o)
	return o
}
