package main

import (
	"fmt"
	"go/constant"
	"go/token"
	"go/types"
	"math/big"
	"strconv"
	"strings"

	"golang.org/x/tools/go/ssa"
)

type big_Int = big.Int

var bigOne = big.NewInt(1)

// CE is a compiled contract expression.
type CE struct {
	T   Term
	Typ types.Type // Go type; untyped int = mathematical integer, untyped float = real
	P   *Place     // set when the expression denotes an lvalue
	Nil bool       // the literal nil
	Arr string     // for ghost maps: SMT sort of the array
	Fn  *ssa.Function
}

var (
	tMath = types.Typ[types.UntypedInt]
	tReal = types.Typ[types.UntypedFloat]
	tBool = types.Typ[types.Bool]
	tStr  = types.Typ[types.String]
)

type SpecCtx struct {
	e        *Enc
	fr       *Frame
	st, old  *State
	names    map[string]CE
	results  []Val
	resNames []string
	lookup   func(name string) (CE, bool)
	what     string // for error messages
	noOld    bool
	inOld    bool
}

func (c *SpecCtx) with(st *State) *SpecCtx {
	n := *c
	n.st = st
	return &n
}

func (c *SpecCtx) bindName(name string, v CE) *SpecCtx {
	n := *c
	n.names = map[string]CE{}
	for k, x := range c.names {
		n.names[k] = x
	}
	n.names[name] = v
	return &n
}

func specSort(t string) (string, types.Type) {
	switch t {
	case "int":
		return "Int", tMath
	case "real":
		return "Real", tReal
	case "bool":
		return "Bool", tBool
	case "str", "string":
		return "Str", tStr
	case "ptr":
		return "Ptr", types.NewPointer(types.Typ[types.Int])
	case "iface", "any":
		return "Iface", types.NewInterfaceType(nil, nil)
	case "flt":
		return "Flt", types.Typ[types.Float64]
	case "map[int]int":
		return "(Array Int Int)", nil
	case "map[int]bool":
		return "(Array Int Bool)", nil
	}
	return "", nil
}

func (e *Enc) compileBool(c *SpecCtx, x *Expr) Term {
	ce := e.compile(c, x)
	if e.B.sortOf(ce.Typ) != "Bool" {
		fail("%s: expression %s is not boolean", c.what, x)
	}
	return ce.T
}

func isMath(t types.Type) bool {
	b, ok := t.(*types.Basic)
	return ok && b.Kind() == types.UntypedInt
}
func isReal(t types.Type) bool {
	b, ok := t.(*types.Basic)
	return ok && b.Kind() == types.UntypedFloat
}

func (e *Enc) ghostKey(name string) (string, string, types.Type) {
	gv := e.CS.Ghosts[name]
	if gv == nil {
		// builtin ghosts
		switch name {
		case "sends", "nilsends", "recvs":
			stateSorts["ghost."+name] = "(Array Int Int)"
			return "ghost." + name, "(Array Int Int)", nil
		}
		fail("unknown ghost variable %s", name)
	}
	srt, typ := specSort(gv.Type)
	if srt == "" {
		fail("bad ghost type %s", gv.Type)
	}
	stateSorts["ghost."+name] = srt
	return "ghost." + name, srt, typ
}

func (e *Enc) compile(c *SpecCtx, x *Expr) CE {
	switch x.Op {
	case "int":
		v, ok := new(big.Int).SetString(x.Lit, 0)
		if !ok {
			fail("bad integer literal %s", x.Lit)
		}
		return CE{T: intLit(v), Typ: tMath}
	case "real":
		return CE{T: x.Lit, Typ: tReal}
	case "bool":
		return CE{T: x.Lit, Typ: tBool}
	case "str":
		s, err := strconv.Unquote("\"" + x.Lit + "\"")
		if err != nil {
			s = x.Lit
		}
		return CE{T: e.B.strLit(s), Typ: tStr}
	case "nil":
		return CE{Nil: true, T: "NIL"}
	case "ident":
		return e.compileIdent(c, x.Name)
	case "old":
		if c.old == nil {
			fail("%s: old() not available here", c.what)
		}
		oc := c.with(c.old)
		oc.inOld = true
		return e.compile(oc, x.Args[0])
	case "un":
		a := e.compile(c, x.Args[0])
		switch x.Name {
		case "!":
			return CE{T: not(a.T), Typ: tBool}
		case "-":
			if isReal(a.Typ) {
				return CE{T: "(- " + a.T + ")", Typ: tReal}
			}
			return CE{T: "(- " + a.T + ")", Typ: tMath}
		case "*":
			pt, ok := a.Typ.Underlying().(*types.Pointer)
			if !ok {
				fail("%s: dereference of non-pointer %s", c.what, x.Args[0])
			}
			// a.P with an empty term is an interior pointer (its place is the
			// pointee); otherwise a.P is the lvalue holding the pointer itself
			var pl *Place
			if a.T == "" && a.P != nil {
				pl = a.P
			} else {
				pl = &Place{Kind: PDeref, Ptr: a.T, Typ: pt.Elem()}
			}
			return CE{T: e.getPlace(c.st, pl), Typ: pt.Elem(), P: pl}
		}
	case "sel":
		return e.compileSel(c, x)
	case "idx":
		return e.compileIdx(c, x)
	case "slice":
		return e.compileSliceExpr(c, x)
	case "call":
		return e.compileCallExpr(c, x)
	case "ite":
		cond := e.compileBool(c, x.Args[0])
		a := e.compile(c, x.Args[1])
		b := e.compile(c, x.Args[2])
		a, b = e.unify(c, a, b)
		return CE{T: ite(cond, a.T, b.T), Typ: a.Typ}
	case "sum":
		if x.VarType != "elem" || len(x.Args) != 2 {
			fail("%s: sum needs 'sum x in s :: e'", c.what)
		}
		return e.compileSumOver(c, x)
	case "forall", "exists":
		if x.VarType == "elem" && len(x.Args) == 2 {
			return e.compileQuantOver(c, x)
		}
		srt, typ := e.specSortOf(x.VarType)
		if srt == "" || typ == nil {
			fail("%s: bad quantifier type %s", c.what, x.VarType)
		}
		vn := e.B.freshName("q." + x.Var)
		e.noteBound(vn, srt)
		body := e.compileBool(c.bindName(x.Var, CE{T: vn, Typ: typ}), x.Args[0])
		if x.Op == "forall" {
			// instantiation triggers: every "(select <atom> <var>)" in the body
			if pats := selectPatterns(body, vn); len(pats) > 0 {
				body = "(! " + body + " " + strings.Join(pats, " ") + ")"
			}
		}
		return CE{T: fmt.Sprintf("(%s ((%s %s)) %s)", x.Op, vn, srt, body), Typ: tBool}
	case "bin":
		return e.compileBin(c, x)
	}
	fail("%s: cannot compile %s", c.what, x)
	return CE{}
}

func (e *Enc) compileIdent(c *SpecCtx, name string) CE {
	if v, ok := c.names[name]; ok {
		return v
	}
	if c.inOld && c.fr != nil {
		// inside old(): a parameter name denotes the value passed in, even if
		// the variable has been reassigned since (loop-carried parameters)
		for i, p := range c.fr.fn.Params {
			if p.Name() == name && i < len(c.fr.params) {
				v := c.fr.params[i]
				return CE{T: v.T, P: v.P, Typ: p.Type(), Fn: v.Fn}
			}
		}
	}
	switch name {
	case "result":
		if len(c.results) == 0 {
			fail("%s: no result here", c.what)
		}
		return e.valCE(c, c.results[0])
	case "$alloc": // the allocation mark: every existing reference is >= it
		return CE{T: e.alloc(c.st), Typ: tMath}
	case "MaxInt64":
		return CE{T: "9223372036854775807", Typ: tMath}
	case "MinInt64":
		return CE{T: "(- 9223372036854775808)", Typ: tMath}
	case "MaxUint32":
		return CE{T: "4294967295", Typ: tMath}
	}
	if strings.HasPrefix(name, "result") {
		if k, err := strconv.Atoi(name[len("result"):]); err == nil && k < len(c.results) {
			return e.valCE(c, c.results[k])
		}
	}
	for i, rn := range c.resNames {
		if rn == name && i < len(c.results) {
			return e.valCE(c, c.results[i])
		}
	}
	if c.lookup != nil {
		if v, ok := c.lookup(name); ok {
			return v
		}
	}
	// package-level constant
	if obj := e.L.Pkg.Pkg.Scope().Lookup(name); obj != nil {
		if k, ok := obj.(*types.Const); ok {
			switch k.Val().Kind() {
			case constant.Int:
				bi, ok := constant.Val(k.Val()).(*big.Int)
				if !ok {
					i64, _ := constant.Int64Val(k.Val())
					bi = big.NewInt(i64)
				}
				return CE{T: intLit(bi), Typ: tMath}
			case constant.String:
				return CE{T: e.B.strLit(constant.StringVal(k.Val())), Typ: k.Type()}
			case constant.Bool:
				return CE{T: fmt.Sprint(constant.BoolVal(k.Val())), Typ: tBool}
			}
		}
		if g, ok := obj.(*types.Var); ok {
			// package-level variable: load its cell
			gv := e.L.Pkg.Members[name].(*ssa.Global)
			pl := &Place{Kind: PDeref, Ptr: "(mkptr " + e.globalRef(gv) + " 0)", Typ: g.Type()}
			return CE{T: e.getPlace(c.st, pl), Typ: g.Type(), P: pl}
		}
	}
	fail("%s: unresolved name %q", c.what, name)
	return CE{}
}

func (e *Enc) valCE(c *SpecCtx, v Val) CE {
	if v.P != nil {
		return CE{P: v.P, Typ: v.Typ, T: ""}
	}
	return CE{T: v.T, Typ: v.Typ, Fn: v.Fn}
}

// deref turns a pointer-typed CE into the CE of its pointee.
func (e *Enc) deref(c *SpecCtx, a CE) CE {
	pt := a.Typ.Underlying().(*types.Pointer)
	var pl *Place
	if a.P != nil && a.T == "" {
		pl = a.P // interior pointer value: its place is the pointee
	} else {
		pl = &Place{Kind: PDeref, Ptr: a.T, Typ: pt.Elem()}
	}
	return CE{T: e.getPlace(c.st, pl), Typ: pt.Elem(), P: pl}
}

func (e *Enc) compileSel(c *SpecCtx, x *Expr) CE {
	if b := x.Args[0]; b.Op == "ident" && b.Name == "ghost" {
		key, srt, typ := e.ghostKey(x.Name)
		return CE{T: e.get(c.st, key, srt), Typ: typ, Arr: srt}
	}
	a := e.compile(c, x.Args[0])
	if a.Typ == nil {
		fail("%s: selector on untyped %s", c.what, x.Args[0])
	}
	if _, ok := a.Typ.Underlying().(*types.Pointer); ok {
		a = e.deref(c, a)
	}
	st, ok := a.Typ.Underlying().(*types.Struct)
	if !ok {
		fail("%s: field %s of non-struct %s (%s)", c.what, x.Name, x.Args[0], a.Typ)
	}
	for i := 0; i < st.NumFields(); i++ {
		if st.Field(i).Name() == x.Name {
			ft := st.Field(i).Type()
			var pl *Place
			if a.P != nil {
				pl = &Place{Kind: PField, Base: a.P, Field: i, Typ: ft}
			}
			return e.typedRead(c, CE{T: e.B.structField(a.Typ, a.T, i), Typ: ft, P: pl})
		}
	}
	fail("%s: no field %s in %s", c.what, x.Name, a.Typ)
	return CE{}
}

func (e *Enc) toInt(c *SpecCtx, a CE) Term {
	if a.Typ != nil && e.B.sortOf(a.Typ) == "Int" || isMath(a.Typ) {
		return a.T
	}
	fail("%s: integer expected, got %v", c.what, a.Typ)
	return ""
}

func (e *Enc) compileIdx(c *SpecCtx, x *Expr) CE {
	a := e.compile(c, x.Args[0])
	i := e.compile(c, x.Args[1])
	if a.Typ == nil && a.Arr != "" { // ghost map
		elemT := tMath
		if strings.HasSuffix(a.Arr, "Bool)") {
			elemT = tBool
		}
		return CE{T: fmt.Sprintf("(select %s %s)", a.T, i.T), Typ: elemT}
	}
	if _, ok := a.Typ.Underlying().(*types.Pointer); ok {
		a = e.deref(c, a)
	}
	switch u := a.Typ.Underlying().(type) {
	case *types.Slice:
		ptr := fmt.Sprintf("(mkptr (sarr %s) (+ (soff %s) %s))", a.T, a.T, e.toInt(c, i))
		pl := &Place{Kind: PDeref, Ptr: ptr, Typ: u.Elem()}
		return e.typedRead(c, CE{T: e.getPlace(c.st, pl), Typ: u.Elem(), P: pl})
	case *types.Array:
		var pl *Place
		if a.P != nil {
			pl = &Place{Kind: PIndex, Base: a.P, Idx: i.T, Typ: u.Elem()}
		}
		return e.typedRead(c, CE{T: fmt.Sprintf("(select %s %s)", a.T, i.T), Typ: u.Elem(), P: pl})
	case *types.Map:
		// Go semantics: the zero value for an absent key (and for a nil map)
		val := e.get(c.st, e.mapKey(u, "val"), e.mapSort(u, "val"))
		dom := e.get(c.st, e.mapKey(u, "dom"), e.mapSort(u, "dom"))
		return e.typedRead(c, CE{T: fmt.Sprintf("(ite (select (select %s %s) %s) (select (select %s %s) %s) %s)", dom, a.T, i.T, val, a.T, i.T, e.B.zeroOf(u.Elem())), Typ: u.Elem()})
	case *types.Basic:
		e.B.declTop("strbyte", "(declare-fun strbyte (Str Int) Int)")
		return CE{T: fmt.Sprintf("(strbyte %s %s)", a.T, i.T), Typ: tMath}
	}
	fail("%s: cannot index %s", c.what, a.Typ)
	return CE{}
}

func (e *Enc) compileSliceExpr(c *SpecCtx, x *Expr) CE {
	a := e.compile(c, x.Args[0])
	lo, hi := "0", "(slen "+a.T+")"
	if x.Args[1] != nil {
		lo = e.toInt(c, e.compile(c, x.Args[1]))
	}
	if x.Args[2] != nil {
		hi = e.toInt(c, e.compile(c, x.Args[2]))
	}
	if _, ok := a.Typ.Underlying().(*types.Slice); !ok {
		fail("%s: slicing non-slice", c.what)
	}
	return CE{T: fmt.Sprintf("(mkslice (sarr %s) (+ (soff %s) %s) (- %s %s) (- (scap %s) %s))", a.T, a.T, lo, hi, lo, a.T, lo), Typ: a.Typ}
}

func (e *Enc) unify(c *SpecCtx, a, b CE) (CE, CE) {
	if a.Nil && !b.Nil {
		a = e.nilOf(c, b.Typ)
	}
	if b.Nil && !a.Nil {
		b = e.nilOf(c, a.Typ)
	}
	if isReal(a.Typ) && !isReal(b.Typ) && b.Typ != nil && (isMath(b.Typ) || e.B.sortOf(b.Typ) == "Int") {
		b = CE{T: "(to_real " + b.T + ")", Typ: tReal}
	}
	if isReal(b.Typ) && !isReal(a.Typ) && a.Typ != nil && (isMath(a.Typ) || e.B.sortOf(a.Typ) == "Int") {
		a = CE{T: "(to_real " + a.T + ")", Typ: tReal}
	}
	return a, b
}

func nilable(t types.Type) bool {
	switch t.Underlying().(type) {
	case *types.Pointer, *types.Interface, *types.Slice, *types.Map, *types.Chan, *types.Signature:
		return true
	}
	if b, ok := t.Underlying().(*types.Basic); ok && b.Kind() == types.UnsafePointer {
		return true
	}
	return false
}

func (e *Enc) nilOf(c *SpecCtx, t types.Type) CE {
	if t == nil {
		fail("%s: nil compared with untyped value", c.what)
	}
	switch t.Underlying().(type) {
	case *types.Pointer:
		return CE{T: "nilptr", Typ: t}
	case *types.Interface:
		return CE{T: "niliface", Typ: t}
	case *types.Slice:
		return CE{T: "nilslice", Typ: t, Nil: true}
	}
	return CE{T: "0", Typ: t}
}

func (e *Enc) compileBin(c *SpecCtx, x *Expr) CE {
	op := x.Name
	switch op {
	case "&&", "||", "==>", "<==>":
		a := e.compileBool(c, x.Args[0])
		b := e.compileBool(c, x.Args[1])
		switch op {
		case "&&":
			return CE{T: and(a, b), Typ: tBool}
		case "||":
			return CE{T: or(a, b), Typ: tBool}
		case "==>":
			return CE{T: implies(a, b), Typ: tBool}
		default:
			return CE{T: "(= " + a + " " + b + ")", Typ: tBool}
		}
	}
	a := e.compile(c, x.Args[0])
	b := e.compile(c, x.Args[1])
	if (op == "==" || op == "!=") && (a.Nil != b.Nil) {
		// a contract shared by the instances of a generic function may compare a
		// type-parameter value with nil: for an instance whose type argument
		// has no nil (a struct, a number) the comparison is simply false
		o := a
		if a.Nil {
			o = b
		}
		if o.Typ != nil && !nilable(o.Typ) {
			if op == "==" {
				return CE{T: "false", Typ: tBool}
			}
			return CE{T: "true", Typ: tBool}
		}
	}
	a, b = e.unify(c, a, b)
	switch op {
	case "==", "!=":
		var eq Term
		if a.Typ != nil {
			if _, ok := a.Typ.Underlying().(*types.Slice); ok && (a.Nil || b.Nil) {
				o := a
				if a.Nil {
					o = b
				}
				eq = "(= (sarr " + o.T + ") 0)"
			}
		}
		if eq == "" {
			if a.T == "" || b.T == "" {
				fail("%s: comparison of interior pointers in %s", c.what, x)
			}
			if a.Typ != nil && b.Typ != nil && e.B.sortOf(a.Typ) == "Iface" && e.B.sortOf(b.Typ) != "Iface" {
				fail("%s: comparing interface with %s", c.what, b.Typ)
			}
			eq = "(= " + a.T + " " + b.T + ")"
		}
		if op == "!=" {
			eq = not(eq)
		}
		return CE{T: eq, Typ: tBool}
	case "<", "<=", ">", ">=":
		if a.Typ != nil && e.B.sortOf(a.Typ) == "Str" {
			e.B.needStrOrder = true
			switch op {
			case "<":
				return CE{T: "(strlt " + a.T + " " + b.T + ")", Typ: tBool}
			case ">":
				return CE{T: "(strlt " + b.T + " " + a.T + ")", Typ: tBool}
			case "<=":
				return CE{T: "(not (strlt " + b.T + " " + a.T + "))", Typ: tBool}
			default:
				return CE{T: "(not (strlt " + a.T + " " + b.T + "))", Typ: tBool}
			}
		}
		if a.Typ != nil && e.B.sortOf(a.Typ) == "Flt" {
			switch op {
			case "<":
				return CE{T: "(fltlt " + a.T + " " + b.T + ")", Typ: tBool}
			case ">":
				return CE{T: "(fltlt " + b.T + " " + a.T + ")", Typ: tBool}
			case "<=":
				return CE{T: "(fltle " + a.T + " " + b.T + ")", Typ: tBool}
			default:
				return CE{T: "(fltle " + b.T + " " + a.T + ")", Typ: tBool}
			}
		}
		return CE{T: "(" + op + " " + a.T + " " + b.T + ")", Typ: tBool}
	case "+", "-", "*":
		if op == "+" && a.Typ != nil && b.Typ != nil && e.B.sortOf(a.Typ) == "Str" && e.B.sortOf(b.Typ) == "Str" {
			e.B.declTop("strcat", "(declare-fun strcat (Str Str) Str)")
			return CE{T: "(strcat " + a.T + " " + b.T + ")", Typ: tStr}
		}
		rt := tMath
		if isReal(a.Typ) || isReal(b.Typ) {
			rt = tReal
		}
		return CE{T: "(" + op + " " + a.T + " " + b.T + ")", Typ: rt}
	case "/":
		if isReal(a.Typ) || isReal(b.Typ) {
			return CE{T: "(/ " + a.T + " " + b.T + ")", Typ: tReal}
		}
		return CE{T: "(div " + a.T + " " + b.T + ")", Typ: tMath}
	case "%":
		return CE{T: "(mod " + a.T + " " + b.T + ")", Typ: tMath}
	}
	fail("%s: unknown operator %s", c.what, op)
	return CE{}
}

func (e *Enc) compileCallExpr(c *SpecCtx, x *Expr) CE {
	argn := func(n int) {
		if len(x.Args) != n {
			fail("%s: %s takes %d arguments", c.what, x.Name, n)
		}
	}
	switch x.Name {
	case "len", "cap":
		argn(1)
		a := e.compile(c, x.Args[0])
		if a.Typ == nil {
			fail("%s: len of untyped", c.what)
		}
		if _, ok := a.Typ.Underlying().(*types.Pointer); ok {
			a = e.deref(c, a)
		}
		switch u := a.Typ.Underlying().(type) {
		case *types.Slice:
			if x.Name == "cap" {
				return CE{T: "(scap " + a.T + ")", Typ: tMath}
			}
			return CE{T: "(slen " + a.T + ")", Typ: tMath}
		case *types.Basic:
			return CE{T: "(strlen " + a.T + ")", Typ: tMath}
		case *types.Map:
			return CE{T: e.mapLen(c.st, u, a.T), Typ: tMath}
		case *types.Array:
			return CE{T: fmt.Sprint(u.Len()), Typ: tMath}
		case *types.Chan:
			e.B.declTop("chcap", "(declare-fun chcap (Int) Int)")
			return CE{T: "(chcap " + a.T + ")", Typ: tMath}
		}
		fail("%s: len of %s", c.what, a.Typ)
	case "sameelems": // sameelems(s): the backing array of s holds what it held in old() (array equality, no quantifier)
		argn(1)
		ce := e.compile(c, x.Args[0])
		if ce.Typ != nil {
			if _, ok := ce.Typ.Underlying().(*types.Pointer); ok {
				ce = e.deref(c, ce)
			}
		}
		u, ok := ce.Typ.Underlying().(*types.Slice)
		if !ok {
			fail("%s: sameelems of non-slice %s", c.what, ce.Typ)
		}
		k := e.B.heapName(u.Elem())
		srt := e.B.heapSort(u.Elem())
		h := e.get(c.st, k, srt)
		h0 := e.get(c.old, k, srt)
		return CE{T: fmt.Sprintf("(= (select %s (sarr %s)) (select %s (sarr %s)))", h, ce.T, h0, ce.T), Typ: tBool}
	case "arrframe": // arrframe(s1, s2, ...): every object of s1's element heap other than the listed slices' arrays is as in old()
		if len(x.Args) == 0 {
			fail("%s: arrframe needs a slice", c.what)
		}
		var refs []Term
		var elem types.Type
		for _, a := range x.Args {
			ce := e.compile(c, a)
			if ce.Typ != nil {
				if _, ok := ce.Typ.Underlying().(*types.Pointer); ok {
					ce = e.deref(c, ce)
				}
			}
			u, ok := ce.Typ.Underlying().(*types.Slice)
			if !ok {
				fail("%s: arrframe of non-slice %s", c.what, ce.Typ)
			}
			if elem == nil {
				elem = u.Elem()
			}
			refs = append(refs, "(sarr "+ce.T+")")
		}
		q := e.B.freshName("q.r")
		var neq []Term
		for _, r := range refs {
			neq = append(neq, "(not (= "+q+" "+r+"))")
		}
		k := e.B.heapName(elem)
		srt := e.B.heapSort(elem)
		h := e.get(c.st, k, srt)
		h0 := e.get(c.old, k, srt)
		if h == h0 {
			return CE{T: "true", Typ: tBool}
		}
		return CE{T: fmt.Sprintf("(forall ((%s Int)) (! (=> %s (= (select %s %s) (select %s %s))) :pattern ((select %s %s))))",
			q, and(neq...), h, q, h0, q, h, q), Typ: tBool}
	case "otherfields": // otherfields(p, f1, f2, ...): every field of *p other than the named ones is as in old()
		if len(x.Args) < 1 {
			fail("%s: otherfields needs a pointer", c.what)
		}
		pc := e.compile(c, x.Args[0])
		pt, ok := pc.Typ.Underlying().(*types.Pointer)
		if !ok {
			fail("%s: otherfields of non-pointer", c.what)
		}
		stt, ok := pt.Elem().Underlying().(*types.Struct)
		if !ok {
			fail("%s: otherfields of non-struct pointer", c.what)
		}
		except := map[string]bool{}
		for _, a := range x.Args[1:] {
			if a.Op != "ident" {
				fail("%s: otherfields: field names expected", c.what)
			}
			except[a.Name] = true
		}
		pl := &Place{Kind: PDeref, Ptr: pc.T, Typ: pt.Elem()}
		cur := e.getPlace(c.st, pl)
		old := e.getPlace(c.old, pl)
		var eqs []Term
		for i := 0; i < stt.NumFields(); i++ {
			if except[stt.Field(i).Name()] {
				continue
			}
			eqs = append(eqs, fmt.Sprintf("(= %s %s)", e.B.structField(pt.Elem(), cur, i), e.B.structField(pt.Elem(), old, i)))
		}
		return CE{T: and(eqs...), Typ: tBool}
	case "cellsframe": // cellsframe(p1, p2, ...): every pre-existing cell of p1's pointee heap other than the cells the listed pointers point at is as in old()
		if len(x.Args) == 0 {
			fail("%s: cellsframe needs a pointer", c.what)
		}
		var ptrs []Term
		var elem types.Type
		for _, a := range x.Args {
			ce := e.compile(c, a)
			u, ok := ce.Typ.Underlying().(*types.Pointer)
			if !ok {
				fail("%s: cellsframe of non-pointer %s", c.what, ce.Typ)
			}
			if elem == nil {
				elem = u.Elem()
			}
			ptrs = append(ptrs, ce.T)
		}
		qr := e.B.freshName("q.r")
		qi := e.B.freshName("q.i")
		// only objects that existed in the old state (what was allocated since
		// has no old content to compare with)
		conds := []Term{"(>= " + qr + " " + e.alloc(c.old) + ")"}
		for _, p := range ptrs {
			conds = append(conds, fmt.Sprintf("(not (and (= %s (pref %s)) (= %s (pidx %s))))", qr, p, qi, p))
		}
		k := e.B.heapName(elem)
		srt := e.B.heapSort(elem)
		h := e.get(c.st, k, srt)
		h0 := e.get(c.old, k, srt)
		if h == h0 {
			return CE{T: "true", Typ: tBool}
		}
		return CE{T: fmt.Sprintf("(forall ((%s Int) (%s Int)) (! (=> %s (= (select (select %s %s) %s) (select (select %s %s) %s))) :pattern ((select (select %s %s) %s))))",
			qr, qi, and(conds...), h, qr, qi, h0, qr, qi, h, qr, qi), Typ: tBool}
	case "mapsframe": // mapsframe(m1, m2, ...): every map of m1's type other than the listed ones is as in old()
		if len(x.Args) == 0 {
			fail("%s: mapsframe needs a map", c.what)
		}
		var refs []Term
		var mt *types.Map
		for _, a := range x.Args {
			ce := e.compile(c, a)
			u, ok := ce.Typ.Underlying().(*types.Map)
			if !ok {
				fail("%s: mapsframe of non-map %s", c.what, ce.Typ)
			}
			if mt == nil {
				mt = u
			}
			refs = append(refs, ce.T)
		}
		q := e.B.freshName("q.m")
		var neq []Term
		for _, r := range refs {
			neq = append(neq, "(not (= "+q+" "+r+"))")
		}
		dom := e.get(c.st, e.mapKey(mt, "dom"), e.mapSort(mt, "dom"))
		val := e.get(c.st, e.mapKey(mt, "val"), e.mapSort(mt, "val"))
		dom0 := e.get(c.old, e.mapKey(mt, "dom"), e.mapSort(mt, "dom"))
		val0 := e.get(c.old, e.mapKey(mt, "val"), e.mapSort(mt, "val"))
		if dom == dom0 && val == val0 {
			return CE{T: "true", Typ: tBool}
		}
		return CE{T: fmt.Sprintf("(forall ((%s Int)) (! (=> %s (and (= (select %s %s) (select %s %s)) (= (select %s %s) (select %s %s)))) :pattern ((select %s %s)) :pattern ((select %s %s))))",
			q, and(neq...), dom, q, dom0, q, val, q, val0, q, dom, q, val, q), Typ: tBool}
	case "premaps": // premaps("map[K]V"): every map of that type that existed in old() is as it was (maps made since are unconstrained)
		argn(1)
		t := e.lookupType(x.Args[0].Lit)
		if t == nil {
			fail("%s: premaps: unknown type %s", c.what, x.Args[0].Lit)
		}
		mt, ok := t.Underlying().(*types.Map)
		if !ok {
			fail("%s: premaps of non-map %s", c.what, t)
		}
		q := e.B.freshName("q.m")
		dom := e.get(c.st, e.mapKey(mt, "dom"), e.mapSort(mt, "dom"))
		val := e.get(c.st, e.mapKey(mt, "val"), e.mapSort(mt, "val"))
		dom0 := e.get(c.old, e.mapKey(mt, "dom"), e.mapSort(mt, "dom"))
		val0 := e.get(c.old, e.mapKey(mt, "val"), e.mapSort(mt, "val"))
		if dom == dom0 && val == val0 {
			return CE{T: "true", Typ: tBool}
		}
		return CE{T: fmt.Sprintf("(forall ((%s Int)) (! (=> (>= %s %s) (and (= (select %s %s) (select %s %s)) (= (select %s %s) (select %s %s)))) :pattern ((select %s %s)) :pattern ((select %s %s))))",
			q, q, e.alloc(c.old), dom, q, dom0, q, val, q, val0, q, dom, q, val, q), Typ: tBool}
	case "min", "max":
		argn(2)
		a, b := e.compile(c, x.Args[0]), e.compile(c, x.Args[1])
		f := "imin"
		if x.Name == "max" {
			f = "imax"
		}
		return CE{T: "(" + f + " " + a.T + " " + b.T + ")", Typ: tMath}
	case "floor", "ceil":
		argn(1)
		a := e.compile(c, x.Args[0])
		if x.Name == "floor" {
			return CE{T: "(rfloor " + a.T + ")", Typ: tMath}
		}
		return CE{T: "(rceil " + a.T + ")", Typ: tMath}
	case "real":
		argn(1)
		a := e.compile(c, x.Args[0])
		if isReal(a.Typ) {
			return a
		}
		return CE{T: "(to_real " + a.T + ")", Typ: tReal}
	case "clampZ":
		argn(1)
		return CE{T: "(clampZ " + e.compile(c, x.Args[0]).T + ")", Typ: tMath}
	case "has": // has(m, k): map membership
		argn(2)
		m := e.compile(c, x.Args[0])
		k := e.compile(c, x.Args[1])
		if m.Typ != nil {
			if _, ok := m.Typ.Underlying().(*types.Pointer); ok {
				m = e.deref(c, m)
			}
		}
		mt, ok := m.Typ.Underlying().(*types.Map)
		if !ok {
			fail("%s: has() on non-map", c.what)
		}
		dom := e.get(c.st, e.mapKey(mt, "dom"), e.mapSort(mt, "dom"))
		return CE{T: fmt.Sprintf("(select (select %s %s) %s)", dom, m.T, k.T), Typ: tBool}
	case "str": // str(b): the string conversion of a byte slice in the current state (what string(b) yields in code)
		argn(1)
		a := e.compile(c, x.Args[0])
		if a.Typ != nil {
			if _, ok := a.Typ.Underlying().(*types.Pointer); ok {
				a = e.deref(c, a)
			}
		}
		sl, ok := a.Typ.Underlying().(*types.Slice)
		if !ok {
			fail("%s: str() of non-slice", c.what)
		}
		e.B.declTop("strof", "(declare-fun strof ((Array Int Int) Int Int) Str)")
		h := e.get(c.st, e.B.heapName(sl.Elem()), e.B.heapSort(sl.Elem()))
		return CE{T: fmt.Sprintf("(strof (select %s (sarr %s)) (soff %s) (slen %s))", h, a.T, a.T, a.T), Typ: tStr}
	case "get": // get(m, k): the value stored under k, read WITHOUT the absent-key default (meaningful under has(m, k)); keeps `ite` out of quantifier triggers
		argn(2)
		m := e.compile(c, x.Args[0])
		k := e.compile(c, x.Args[1])
		if m.Typ != nil {
			if _, ok := m.Typ.Underlying().(*types.Pointer); ok {
				m = e.deref(c, m)
			}
		}
		mt, ok := m.Typ.Underlying().(*types.Map)
		if !ok {
			fail("%s: get() on non-map", c.what)
		}
		val := e.get(c.st, e.mapKey(mt, "val"), e.mapSort(mt, "val"))
		return e.typedRead(c, CE{T: fmt.Sprintf("(select (select %s %s) %s)", val, m.T, k.T), Typ: mt.Elem()})
	case "typeis": // typeis(x, "int64"): dynamic type of an interface value
		argn(2)
		a := e.compile(c, x.Args[0])
		tn := x.Args[1].Lit
		t := e.lookupType(tn)
		if t == nil {
			fail("%s: unknown type %s", c.what, tn)
		}
		return CE{T: fmt.Sprintf("(= (ity %s) %d)", a.T, e.B.typeID(t)), Typ: tBool}
	case "implements": // implements(x, "interface{ Abort() error }"): what a comma-ok assertion of x to that interface type answers
		argn(2)
		a := e.compile(c, x.Args[0])
		t := e.lookupType(x.Args[1].Lit)
		if t == nil {
			fail("%s: unknown type %s", c.what, x.Args[1].Lit)
		}
		if _, ok := t.Underlying().(*types.Interface); !ok {
			fail("%s: implements() needs an interface type, got %s", c.what, t)
		}
		e.B.declTop("implements", "(declare-fun implements (Int Int) Bool)")
		return CE{T: fmt.Sprintf("(and (not (= (ity %s) 0)) (implements (ity %s) %d))", a.T, a.T, e.B.typeID(t)), Typ: tBool}
	case "ival": // integer payload of an interface value
		argn(1)
		a := e.compile(c, x.Args[0])
		return CE{T: "(ival " + a.T + ")", Typ: tMath}
	case "fltof": // float payload of an interface value holding a float kind
		argn(1)
		a := e.compile(c, x.Args[0])
		e.B.declTop("box.Flt", "(declare-fun box.Flt (Int) Flt)")
		return CE{T: "(box.Flt (ival " + a.T + "))", Typ: types.Typ[types.Float64]}
	case "isfin", "isnan", "ispinf", "isninf":
		argn(1)
		a := e.compile(c, x.Args[0])
		k := map[string]string{"isfin": "fin", "isnan": "fnan", "ispinf": "pinf", "isninf": "ninf"}[x.Name]
		return CE{T: "((_ is " + k + ") " + a.T + ")", Typ: tBool}
	case "isint": // isint(r): the real r is an integer
		argn(1)
		return CE{T: "(is_int " + e.compile(c, x.Args[0]).T + ")", Typ: tBool}
	case "fval":
		argn(1)
		return CE{T: "(fval " + e.compile(c, x.Args[0]).T + ")", Typ: tReal}
	case "payloadOK": // payloadOK(x): the interface value's integer payload fits its dynamic kind
		argn(1)
		a := e.compile(c, x.Args[0])
		return CE{T: e.ifacePayloadWF(a.T), Typ: tBool}
	case "kindof": // kindof(x): reflect kind class of the dynamic type: 1 signed int, 2 unsigned int, 3 float
		argn(1)
		a := e.compile(c, x.Args[0])
		e.declKindOf()
		return CE{T: "(kindof (ity " + a.T + "))", Typ: tMath}
	case "update": // update(m, k, v): ghost map m with m[k] = v
		argn(3)
		m := e.compile(c, x.Args[0])
		k := e.compile(c, x.Args[1])
		v := e.compile(c, x.Args[2])
		if m.Arr == "" {
			fail("%s: update() on non-ghost-map", c.what)
		}
		return CE{T: fmt.Sprintf("(store %s %s %s)", m.T, k.T, v.T), Arr: m.Arr}
	case "chanof": // chanof(ch, "T"): ch is nil or a channel with element type T
		argn(2)
		a := e.compile(c, x.Args[0])
		t := e.lookupType(x.Args[1].Lit)
		if t == nil {
			fail("%s: unknown type %s", c.what, x.Args[1].Lit)
		}
		e.B.declTop("chtype", "(declare-fun chtype (Int) Int)")
		return CE{T: fmt.Sprintf("(or (= %s 0) (= (chtype %s) %d))", a.T, a.T, e.B.typeID(t)), Typ: tBool}
	case "slicein": // slicein(x): the []byte held by interface value x
		argn(1)
		a := e.compile(c, x.Args[0])
		e.B.declTop("box.Slice", "(declare-fun box.Slice (Int) Slice)")
		return CE{T: "(box.Slice (ival " + a.T + "))", Typ: types.NewSlice(types.Typ[types.Byte])}
	case "ref": // ref(p): identity of the object a pointer points to / of a map or channel (0 for nil)
		argn(1)
		a := e.compile(c, x.Args[0])
		if a.Typ != nil {
			switch a.Typ.Underlying().(type) {
			case *types.Pointer:
				if a.T == "" {
					fail("%s: ref() of an interior pointer", c.what)
				}
				return CE{T: "(pref " + a.T + ")", Typ: tMath}
			case *types.Map, *types.Chan:
				return CE{T: a.T, Typ: tMath}
			}
		}
		fail("%s: ref() of %s", c.what, a.Typ)
	case "refof": // refof(x): identity of the object that holds the variable x (a local whose address is taken, *p, ...)
		argn(1)
		a := e.compile(c, x.Args[0])
		if a.P != nil && a.P.Kind == PDeref && a.P.Ptr != "" {
			return CE{T: "(pref " + a.P.Ptr + ")", Typ: tMath}
		}
		fail("%s: refof() of something that is not a memory cell: %s", c.what, x.Args[0])
	case "arr": // arr(s): identity of a slice's backing array (0 for nil)
		argn(1)
		a := e.compile(c, x.Args[0])
		if a.Typ != nil {
			if _, ok := a.Typ.Underlying().(*types.Pointer); ok {
				a = e.deref(c, a)
			}
		}
		return CE{T: "(sarr " + a.T + ")", Typ: tMath}
	case "off": // off(s): where a slice starts inside its backing array
		argn(1)
		a := e.compile(c, x.Args[0])
		if a.Typ != nil {
			if _, ok := a.Typ.Underlying().(*types.Pointer); ok {
				a = e.deref(c, a)
			}
		}
		return CE{T: "(soff " + a.T + ")", Typ: tMath}
	case "recvd": // recvd(ch): completed receives on a channel
		argn(1)
		a := e.compile(c, x.Args[0])
		key, srt, _ := e.ghostKey("recvs")
		return CE{T: fmt.Sprintf("(select %s %s)", e.get(c.st, key, srt), a.T), Typ: tMath}
	case "sent": // sent(ch): completed sends on a channel
		argn(1)
		a := e.compile(c, x.Args[0])
		key, srt, _ := e.ghostKey("sends")
		return CE{T: fmt.Sprintf("(select %s %s)", e.get(c.st, key, srt), a.T), Typ: tMath}
	case "sentnil":
		argn(1)
		a := e.compile(c, x.Args[0])
		key, srt, _ := e.ghostKey("nilsends")
		return CE{T: fmt.Sprintf("(select %s %s)", e.get(c.st, key, srt), a.T), Typ: tMath}
	}
	if p, ok := e.CS.Preds[x.Name]; ok {
		if len(p.Params) != len(x.Args) {
			fail("%s: pred %s takes %d arguments", c.what, p.Name, len(p.Params))
		}
		n := *c
		n.names = map[string]CE{}
		for k, v := range c.names {
			n.names[k] = v
		}
		for i, pp := range p.Params {
			n.names[pp.Name] = e.compile(c, x.Args[i])
		}
		// preds see only their parameters, ghost state and package constants
		n.lookup = nil
		n.results = nil
		n.resNames = nil
		n.what = c.what + " in pred " + p.Name
		return e.compile(&n, p.Body)
	}
	if sf, ok := e.CS.SpecFuns[x.Name]; ok {
		e.declSpecFun(sf)
		var args []string
		for _, a := range x.Args {
			args = append(args, e.compile(c, a).T)
		}
		_, rt := e.specSortOf(sf.Ret)
		if len(args) == 0 {
			return CE{T: "sf." + sf.Name, Typ: rt}
		}
		return CE{T: "(sf." + sf.Name + " " + strings.Join(args, " ") + ")", Typ: rt}
	}
	fail("%s: unknown function %s", c.what, x.Name)
	return CE{}
}

func (e *Enc) declSpecFun(sf *SpecFun) {
	if e.specFunsDeclared[sf.Name] {
		return
	}
	e.specFunsDeclared[sf.Name] = true
	var ps []string
	for _, p := range sf.Params {
		s, _ := e.specSortOf(p.Type)
		if s == "" {
			fail("specfun %s: bad param type %s", sf.Name, p.Type)
		}
		ps = append(ps, s)
	}
	rs, _ := e.specSortOf(sf.Ret)
	e.B.declTop("sf."+sf.Name, fmt.Sprintf("(declare-fun sf.%s (%s) %s)", sf.Name, strings.Join(ps, " "), rs))
	for _, ax := range sf.Axioms {
		ctx := &SpecCtx{e: e, st: &State{m: map[string]Term{}}, names: map[string]CE{}, what: "axiom of " + sf.Name}
		t := e.compileBool(ctx, ax.Expr)
		e.B.top = append(e.B.top, "(assert "+t+")")
	}
}

func (e *Enc) lookupType(name string) types.Type {
	if strings.HasPrefix(name, "*") {
		if t := e.lookupType(name[1:]); t != nil {
			return types.NewPointer(t)
		}
		return nil
	}
	if obj := types.Universe.Lookup(name); obj != nil {
		if tn, ok := obj.(*types.TypeName); ok {
			return tn.Type()
		}
	}
	for _, b := range types.Typ {
		if b.Name() == name {
			return b
		}
	}
	if obj := e.L.Pkg.Pkg.Scope().Lookup(name); obj != nil {
		if tn, ok := obj.(*types.TypeName); ok {
			return tn.Type()
		}
	}
	if tv, err := types.Eval(e.L.Prog.Fset, e.L.Pkg.Pkg, token.NoPos, name); err == nil && tv.IsType() {
		return tv.Type
	}
	if i := strings.LastIndex(name, "."); i > 0 {
		pkgName, tn := name[:i], name[i+1:]
		for _, imp := range e.L.Pkg.Pkg.Imports() {
			if imp.Name() == pkgName || imp.Path() == pkgName {
				if obj := imp.Scope().Lookup(tn); obj != nil {
					return obj.Type()
				}
			}
		}
		for _, p := range e.L.Prog.AllPackages() {
			if p.Pkg.Name() == pkgName || p.Pkg.Path() == pkgName {
				if obj := p.Pkg.Scope().Lookup(tn); obj != nil {
					return obj.Type()
				}
			}
		}
	}
	return nil
}

// typedRead gives a specification-level read of an integer-typed location its
// Go type's range. Real states only hold in-range values, so clamping is the
// identity on them; it hands the solver the range fact in either polarity
// (code-side loads assume the same range directly).
//
// Likewise a slice or pointer read from memory refers to an object that already
// exists in that state: its reference is at or above the allocation mark, so it
// can never be confused with an object allocated later.
func (e *Enc) typedRead(c *SpecCtx, ce CE) CE {
	if ce.Typ == nil || isMath(ce.Typ) || ce.T == "" {
		return ce
	}
	if ii, ok := intInfoOf(ce.Typ); ok {
		ce.T = fmt.Sprintf("(imax %s (imin %s %s))", intLit(ii.lo()), intLit(ii.hi()), ce.T)
		return ce
	}
	return ce
}
