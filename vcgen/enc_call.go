package main

import (
	"fmt"
	"go/token"
	"go/types"
	"strings"

	"golang.org/x/tools/go/ssa"
)

// ---------------------------------------------------------------------------
// Call classification
// ---------------------------------------------------------------------------

type callTarget struct {
	kind    string // builtin, contract, inline, havoc
	fn      *ssa.Function
	con     *Contract
	name    string
	binds   []ssa.Value
	sig     *types.Signature
	inPkg   bool
	recvArg bool // args[0] is the receiver
}

func externName(fn *ssa.Function) string {
	name := fn.Name()
	pkg := ""
	if fn.Pkg != nil {
		pkg = fn.Pkg.Pkg.Name()
	} else if o := fn.Origin(); o != nil && o.Pkg != nil {
		pkg = o.Pkg.Pkg.Name()
	}
	if recv := fn.Signature.Recv(); recv != nil {
		t := recv.Type()
		ptr := ""
		if p, ok := t.(*types.Pointer); ok {
			ptr = "*"
			t = p.Elem()
		}
		tn := t.String()
		if n, ok := t.(*types.Named); ok {
			tn = n.Obj().Name()
			if n.Obj().Pkg() != nil {
				pkg = n.Obj().Pkg().Name()
			}
		}
		if ptr != "" {
			return "(*" + pkg + "." + tn + ")." + name
		}
		return pkg + "." + tn + "." + name
	}
	return pkg + "." + name
}

func (e *Enc) inPackage(fn *ssa.Function) bool {
	p := fn
	for p.Parent() != nil {
		p = p.Parent()
	}
	if p.Pkg == e.L.Pkg {
		return true
	}
	if o := p.Origin(); o != nil && o.Pkg == e.L.Pkg {
		return true
	}
	return false
}

func (e *Enc) classify(common *ssa.CallCommon, fnVal *Val) callTarget {
	if _, ok := common.Value.(*ssa.Builtin); ok {
		return callTarget{kind: "builtin", name: common.Value.Name()}
	}
	if common.IsInvoke() {
		// interface method: extern contract by "<Iface>.<method>"
		it := common.Value.Type()
		name := ifaceName(it) + "." + common.Method.Name()
		if c, ok := e.CS.Funcs[name]; ok {
			return callTarget{kind: "contract", con: c, name: name, sig: common.Method.Type().(*types.Signature), recvArg: true}
		}
		return callTarget{kind: "havoc", name: name, sig: common.Method.Type().(*types.Signature), recvArg: true}
	}
	fn := common.StaticCallee()
	if fn == nil && fnVal != nil && fnVal.Fn != nil {
		fn = fnVal.Fn
	}
	if fn == nil {
		return callTarget{kind: "havoc", name: "dynamic:" + common.Value.Name(), sig: common.Signature()}
	}
	inPkg := e.inPackage(fn)
	var name string
	if inPkg {
		name = contractName(fn)
	} else {
		name = externName(fn)
	}
	ct := callTarget{fn: fn, name: name, sig: fn.Signature, inPkg: inPkg, recvArg: fn.Signature.Recv() != nil}
	if c := e.lookupContract(fn, name); c != nil {
		ct.kind, ct.con = "contract", c
		return ct
	}
	if inPkg && len(fn.Blocks) > 0 && e.inlinable(fn) {
		ct.kind = "inline"
		return ct
	}
	ct.kind = "havoc"
	return ct
}

// lookupContract finds the contract for fn: by name, by generic origin name, or
// by "$closure(<callee>)" anchor.
func (e *Enc) lookupContract(fn *ssa.Function, name string) *Contract {
	if c, ok := e.CS.Funcs[name]; ok {
		return c
	}
	if o := fn.Origin(); o != nil {
		on := contractName(o)
		if !e.inPackage(fn) {
			on = externName(o)
		}
		if c, ok := e.CS.Funcs[on]; ok {
			return c
		}
		// a contract written for one instance serves every instance
		for _, cn := range e.CS.Order {
			if strings.HasPrefix(cn, on+"[") {
				return e.CS.Funcs[cn]
			}
		}
	}
	for anc := fn.Parent(); anc != nil; anc = anc.Parent() {
		// anchored closure names: ancestor$closure(callee)
		pn := contractName(anc)
		for cn, c := range e.CS.Funcs {
			if strings.HasPrefix(cn, pn+"$closure(") && strings.HasSuffix(cn, ")") {
				anchor := cn[len(pn)+len("$closure(") : len(cn)-1]
				if closureCalls(fn, anchor) && uniqueClosureWith(anc, anchor) == fn {
					return c
				}
			}
		}
	}
	return nil
}

func closureCalls(fn *ssa.Function, callee string) bool {
	for _, b := range fn.Blocks {
		for _, ins := range b.Instrs {
			if ci, ok := ins.(ssa.CallInstruction); ok {
				cc := ci.Common()
				if cc.IsInvoke() {
					if cc.Method.Name() == callee {
						return true
					}
					continue
				}
				if sc := cc.StaticCallee(); sc != nil && (sc.Name() == callee || contractName(sc) == callee || strings.ReplaceAll(sc.Name(), "github.com/danthegoodman1/bloomsearch.", "") == callee) {
					return true
				}
			}
		}
	}
	return false
}

// uniqueClosureWith finds the one closure nested (at any depth) in parent that
// directly calls callee.
func uniqueClosureWith(parent *ssa.Function, callee string) *ssa.Function {
	var found *ssa.Function
	dup := false
	var walk func(f *ssa.Function)
	walk = func(f *ssa.Function) {
		for _, af := range f.AnonFuncs {
			if closureCalls(af, callee) {
				if found != nil && found != af {
					dup = true
				}
				found = af
			}
			walk(af)
		}
	}
	walk(parent)
	if dup {
		return nil
	}
	return found
}

func ifaceName(t types.Type) string {
	switch n := t.(type) {
	case *types.Named:
		if n.Obj().Pkg() != nil && n.Obj().Pkg().Path() != "github.com/danthegoodman1/bloomsearch" {
			return n.Obj().Pkg().Name() + "." + n.Obj().Name()
		}
		return n.Obj().Name()
	case *types.Alias:
		return ifaceName(types.Unalias(n))
	}
	return "interface"
}

func (e *Enc) inlinable(fn *ssa.Function) bool {
	if len(fn.Blocks) > 40 {
		return false
	}
	for _, f := range e.stack {
		if f == fn {
			return false
		}
	}
	if len(e.stack) > 5 {
		return false
	}
	// loops need invariants: a function with a loop and no contract cannot be inlined
	for _, b := range fn.Blocks {
		for _, s := range b.Succs {
			if s.Dominates(b) {
				return false
			}
		}
	}
	return true
}

// ---------------------------------------------------------------------------
// Calls
// ---------------------------------------------------------------------------

func (e *Enc) encodeCall(fr *Frame, ins ssa.Value, common *ssa.CallCommon, st *State, reach Term) *State {
	var fnVal *Val
	if !common.IsInvoke() {
		if _, isB := common.Value.(*ssa.Builtin); !isB {
			v := e.val(fr, common.Value)
			fnVal = &v
		}
	}
	ct := e.classify(common, fnVal)
	var args []Val
	if common.IsInvoke() {
		args = append(args, e.val(fr, common.Value))
	}
	for _, a := range common.Args {
		args = append(args, e.val(fr, a))
	}
	if ci, ok := ins.(ssa.Instruction); ok && ins != nil {
		e.anchored(fr, "call", ci, st, reach)
	}
	var res Val
	switch ct.kind {
	case "builtin":
		res, st = e.encodeBuiltin(fr, ins, common, args, st, reach)
	case "contract":
		res, st = e.callContract(fr, ct, args, common, st, reach, common.Pos())
	case "inline":
		var binds []Val
		if fnVal != nil {
			binds = fnVal.Binds
		}
		if mc, ok := common.Value.(*ssa.MakeClosure); ok {
			binds = nil
			for _, b := range mc.Bindings {
				binds = append(binds, e.val(fr, b))
			}
		}
		res, st = e.inlineCall(fr, ct.fn, args, binds, st, reach)
	default:
		res, st = e.havocCall(fr, ct, args, common, st, reach)
	}
	if ins != nil {
		res.Typ = ins.Type()
		fr.vals[ins] = res
	}
	return st
}

func (e *Enc) resultVal(prefix string, sig *types.Signature, st *State) Val {
	n := sig.Results().Len()
	switch n {
	case 0:
		return Val{}
	case 1:
		t := sig.Results().At(0).Type()
		return Val{T: e.freshOf(prefix, t, st), Typ: t}
	}
	var tup []Val
	for i := 0; i < n; i++ {
		t := sig.Results().At(i).Type()
		tup = append(tup, Val{T: e.freshOf(prefix, t, st), Typ: t})
	}
	return Val{Tup: tup}
}

func tupleOf(v Val, n int) []Val {
	if n == 1 {
		return []Val{v}
	}
	return v.Tup
}

// inlineCall encodes the callee's body in place.
func (e *Enc) inlineCall(fr *Frame, fn *ssa.Function, args []Val, binds []Val, st *State, reach Term) (Val, *State) {
	e.calleesInlined[contractName(fn)] = true
	e.inst++
	nf := &Frame{fn: fn, id: e.inst, depth: fr.depth + 1, params: e.materializeArgs(fr, fn, args, st), binds: binds, pc: reach, parent: fr}
	if c := e.CS.Funcs[contractName(fn)]; c != nil {
		nf.con = c
	}
	rets, out, returns := e.encodeBody(nf, st)
	// copy-out for materialized interior pointers
	e.copyOut(nf, out)
	_ = returns
	// a callee that does not return (panics) on some path: those paths end.
	merged := e.mergeStates([]Term{returns, "true"}, []*State{out, st})
	if returns == "false" {
		merged = st
	}
	switch len(rets) {
	case 0:
		return Val{}, merged
	case 1:
		return rets[0], merged
	}
	return Val{Tup: rets}, merged
}

type copyBack struct {
	tmp   Term
	place *Place
	typ   types.Type
}

var pendingCopyOut = map[*Frame][]copyBack{}

// materializeArgs gives interior-pointer arguments an SMT pointer by copying
// the pointee into a temporary object (copy-in); copyOut writes it back.
func (e *Enc) materializeArgs(fr *Frame, fn *ssa.Function, args []Val, st *State) []Val {
	out := make([]Val, len(args))
	for i, a := range args {
		if a.P != nil && a.T == "" {
			elem := a.P.Typ
			ref := e.newRef(st)
			ptr := "(mkptr " + ref + " 0)"
			stateSorts[e.B.heapName(elem)] = e.B.heapSort(elem)
			e.storeCell(st, ptr, elem, e.getPlace(st, a.P))
			out[i] = Val{T: ptr, Typ: a.Typ}
			pendingCopyOut[fr] = append(pendingCopyOut[fr], copyBack{ptr, a.P, elem})
		} else {
			out[i] = a
		}
	}
	return out
}

func (e *Enc) copyOut(nf *Frame, st *State) {
	fr := nf.parent
	for _, cb := range pendingCopyOut[fr] {
		e.setPlace(st, cb.place, e.loadCell(st, cb.tmp, cb.typ))
	}
	delete(pendingCopyOut, fr)
}

func (e *Enc) copyOutFor(fr *Frame, st *State) {
	for _, cb := range pendingCopyOut[fr] {
		e.setPlace(st, cb.place, e.loadCell(st, cb.tmp, cb.typ))
	}
	delete(pendingCopyOut, fr)
}

// paramNames lists the callee-side names of the arguments (receiver first).
func paramNames(ct callTarget) []string {
	var names []string
	if ct.fn != nil {
		for _, p := range ct.fn.Params {
			names = append(names, p.Name())
		}
		return names
	}
	if ct.recvArg {
		names = append(names, "recv")
	}
	ps := ct.sig.Params()
	for i := 0; i < ps.Len(); i++ {
		n := ps.At(i).Name()
		if n == "" || n == "_" {
			n = fmt.Sprintf("arg%d", i)
		}
		names = append(names, n)
	}
	return names
}

func resultNames(sig *types.Signature) []string {
	var names []string
	for i := 0; i < sig.Results().Len(); i++ {
		names = append(names, sig.Results().At(i).Name())
	}
	return names
}

func exprMentions(x *Expr, names map[string]bool) bool {
	if x == nil {
		return false
	}
	if x.Op == "ident" && names[x.Name] {
		return true
	}
	for _, a := range x.Args {
		if exprMentions(a, names) {
			return true
		}
	}
	return false
}

// taggedRequiresFor: the contract has a precondition tagged with one of the
// given properties that is not active in the current check.
func taggedRequiresFor(con *Contract, props []string) bool {
	for _, rq := range con.Requires {
		if len(rq.Props) == 0 || clauseActive(rq) {
			continue
		}
		for _, p := range props {
			if hasProp(rq.Props, p) {
				return true
			}
		}
	}
	return false
}

// callContract is a modular call: requires become obligations of the caller,
// the frame is havocked, ensures are assumed.
func (e *Enc) callContract(fr *Frame, ct callTarget, args []Val, common *ssa.CallCommon, st *State, reach Term, pos token.Pos) (Val, *State) {
	con := ct.con
	if con.Extern {
		e.externsUsed[ct.name] = true
	} else {
		e.calleesByContract[ct.name] = true
	}
	args = e.materializeArgs(fr, ct.fn, args, st)
	names := paramNames(ct)
	bind := map[string]CE{}
	for i, n := range names {
		if i < len(args) {
			bind[n] = CE{T: args[i].T, Typ: args[i].Typ, Fn: args[i].Fn}
		}
	}
	// closure free variables are addressable by name
	if ct.fn != nil {
		var binds []Val
		if mc, ok := common.Value.(*ssa.MakeClosure); ok {
			for _, b := range mc.Bindings {
				binds = append(binds, e.val(fr, b))
			}
		} else if !common.IsInvoke() {
			if _, isB := common.Value.(*ssa.Builtin); !isB {
				binds = e.val(fr, common.Value).Binds
			}
		}
		for i, fv := range ct.fn.FreeVars {
			if i < len(binds) {
				// free variables are pointers to the captured cells; the name
				// denotes the cell's content
				b := binds[i]
				bind["&"+fv.Name()] = CE{T: b.T, Typ: b.Typ}
				if pt, ok := b.Typ.Underlying().(*types.Pointer); ok && b.T != "" {
					bind[fv.Name()] = CE{T: "", Typ: b.Typ, P: &Place{Kind: PDeref, Ptr: b.T, Typ: pt.Elem()}}
				}
			}
		}
	}
	ghostNames := map[string]bool{}
	for _, g := range con.Ghosts {
		ghostNames[g.Name] = true
	}
	pre := st.clone()
	callee := ct.name
	fr.callIdx[callee]++

	mkctx := func(s *State, results []Val) *SpecCtx {
		c := &SpecCtx{e: e, fr: nil, st: s, old: pre, names: map[string]CE{}, results: results, resNames: resultNames(ct.sig), what: "contract of " + callee}
		for k, v := range bind {
			if v.T == "" && v.P != nil {
				// captured variable: its value in the given state
				c.names[k] = CE{T: e.getPlace(s, v.P), Typ: v.P.Typ, P: v.P}
			} else {
				c.names[k] = v
			}
		}
		return c
	}
	// requires
	for k, rq := range con.Requires {
		if exprMentions(rq.Expr, ghostNames) || !clauseActive(rq) {
			continue
		}
		ctx := mkctx(pre, nil)
		for _, l := range con.Lets {
			ctx.names[l.Name] = e.compile(ctx, l.Expr)
		}
		g := e.compileBool(ctx, rq.Expr)
		o := e.addObl(fr, "requires", implies(reach, g), fmt.Sprintf("%s requires %s", callee, rq.Src), pos, rq.Props)
		o.Name = fmt.Sprintf("%s/requires@%s#%d.%d", contractName(e.top), callee, fr.callIdx[callee], k+1)
	}
	// frame
	post := st
	if con.HasModifies {
		e.curCalleeMods = e.calleeMods(ct, args)
		e.applyModifies(fr, con, mkctx, post, callee)
		e.restoreLocals(fr, pre, post, nil)
	}
	if !con.Pure {
		e.havocAlloc(post)
	}
	res := e.resultVal("res."+sanitize(callee), ct.sig, post)
	results := tupleOf(res, ct.sig.Results().Len())
	for _, rv := range results {
		if rv.T != "" && rv.Typ != nil {
			e.assumeNotLocal(fr, rv.T, rv.Typ)
		}
	}
	// ensures
	var lemmaReq, lemmaEns []*Clause
	for _, rq := range con.Requires {
		if exprMentions(rq.Expr, ghostNames) {
			lemmaReq = append(lemmaReq, rq)
		}
	}
	for _, en := range con.Ensures {
		if exprMentions(en.Expr, ghostNames) {
			lemmaEns = append(lemmaEns, en)
			continue
		}
		if !clauseActive(en) && taggedRequiresFor(con, en.Props) {
			// proved (under its own properties' checks) from preconditions that
			// this property's check does not establish at this call site
			continue
		}
		ctx := mkctx(post, results)
		for _, l := range con.Lets {
			ctx.names[l.Name] = e.compile(ctx.with(pre), l.Expr)
		}
		e.B.assume(implies(reach, e.compileBool(ctx, en.Expr)))
	}
	if len(lemmaEns) > 0 {
		ctx := mkctx(post, results)
		var qs []string
		for _, g := range con.Ghosts {
			srt, typ := specSort(g.Type)
			vn := e.B.freshName("g." + g.Name)
			qs = append(qs, fmt.Sprintf("(%s %s)", vn, srt))
			ctx.names[g.Name] = CE{T: vn, Typ: typ}
		}
		var rs, es []Term
		for _, rq := range lemmaReq {
			rs = append(rs, e.compileBool(ctx.with(pre), rq.Expr))
		}
		for _, en := range lemmaEns {
			es = append(es, e.compileBool(ctx, en.Expr))
		}
		e.B.assume(implies(reach, fmt.Sprintf("(forall (%s) %s)", strings.Join(qs, " "), implies(and(rs...), and(es...)))))
		// the instance the caller's contract names (at call <callee>#n ghost x = e):
		// an instance of the quantified fact above, stated so that the solvers need
		// not guess it
		if fr.con != nil && len(fr.con.GhostArgs) > 0 {
			short := callee
			if i := strings.LastIndex(callee, "."); i >= 0 {
				short = callee[i+1:]
			}
			ictx := mkctx(post, results)
			found := 0
			for _, ga := range fr.con.GhostArgs {
				if (ga.Callee != callee && ga.Callee != short) || (ga.N != 0 && ga.N != fr.callIdx[callee]) {
					continue
				}
				cctx := e.frameCtx(fr, pre, fr.curBlock, fr.curIdx, nil)
				cctx.what = "ghost argument " + ga.Name + " at call " + callee
				ictx.names[ga.Name] = e.compile(cctx, ga.Clause.Expr)
				found++
			}
			if found == len(con.Ghosts) {
				var rs2, es2 []Term
				for _, rq := range lemmaReq {
					rs2 = append(rs2, e.compileBool(ictx.with(pre), rq.Expr))
				}
				for _, en := range lemmaEns {
					es2 = append(es2, e.compileBool(ictx, en.Expr))
				}
				e.B.assume(implies(reach, implies(and(rs2...), and(es2...))))
			}
		}
	}
	e.copyOutFor(fr, post)
	return res, post
}

// applyModifies havocs what a contract's modifies clause names.
func (e *Enc) applyModifies(fr *Frame, con *Contract, mkctx func(*State, []Val) *SpecCtx, st *State, callee string) {
	for _, target := range con.Modifies {
		switch {
		case target == "all":
			e.havocAll(st, true)
		case target == "heaps":
			// refined by the type-based mod analysis (deepmods.go)
			e.havocMods(st, e.curCalleeMods)
		case strings.HasPrefix(target, "ghost."):
			key, srt, _ := e.ghostKey(strings.TrimPrefix(target, "ghost."))
			st.m[key] = e.B.declConst(key, srt)
		case strings.HasPrefix(target, "heap(") && strings.HasSuffix(target, ")"):
			t := e.lookupType(target[5 : len(target)-1])
			if t == nil {
				fail("modifies: unknown type in %s", target)
			}
			stateSorts[e.B.heapName(t)] = e.B.heapSort(t)
			st.m[e.B.heapName(t)] = e.baseHeap(st, e.B.heapName(t), "", e.B.heapSort(t))
		case strings.HasPrefix(target, "map(") && strings.HasSuffix(target, ")"):
			x, err := parseExpr(target[4 : len(target)-1])
			if err != nil {
				fail("modifies %s: %v", target, err)
			}
			ctx := mkctx(st, nil)
			ce := e.compile(ctx, x)
			mt, ok := ce.Typ.Underlying().(*types.Map)
			if !ok {
				fail("modifies %s: not a map", target)
			}
			e.havocMap(st, mt, ce.T)
		case strings.HasSuffix(target, "[*]"):
			x, err := parseExpr(strings.TrimSuffix(target, "[*]"))
			if err != nil {
				fail("modifies %s: %v", target, err)
			}
			ctx := mkctx(st, nil)
			ce := e.compile(ctx, x)
			sl, ok := ce.Typ.Underlying().(*types.Slice)
			if !ok {
				fail("modifies %s: not a slice", target)
			}
			e.havocArray(st, sl.Elem(), "(sarr "+ce.T+")")
		default:
			x, err := parseExpr(target)
			if err != nil {
				fail("modifies %s: %v", target, err)
			}
			ctx := mkctx(st, nil)
			ce := e.compile(ctx, x)
			if ce.P == nil {
				fail("modifies %s (contract of %s): not an lvalue", target, callee)
			}
			stateSorts[e.rootHeap(ce.P)] = e.heapSortOfPlace(ce.P)
			e.setPlace(st, ce.P, e.freshOf("mod", ce.P.Typ, st))
		}
	}
}

func (e *Enc) havocArray(st *State, elem types.Type, ref Term) {
	h := e.heapOf(st, elem)
	stateSorts[e.B.heapName(elem)] = e.B.heapSort(elem)
	fresh := e.B.declConst("arr", "(Array Int "+e.B.sortOf(elem)+")")
	e.set(st, e.B.heapName(elem), e.B.heapSort(elem), fmt.Sprintf("(store %s %s %s)", h, ref, fresh))
}

func (e *Enc) havocAll(st *State, ghosts bool) {
	e.havocAlloc(st) // first: the heap invariant of the havocked heaps refers to it
	st.epoch = e.B.freshName("ep")
	if ghosts {
		for _, g := range append(append([]string{}, e.CS.GhostOrder...), "sends", "nilsends", "recvs") {
			key, srt, _ := e.ghostKey(g)
			st.m[key] = e.B.declConst(key+"@havoc", srt)
		}
	}
	keys := map[string]bool{}
	for k := range stateSorts {
		keys[k] = true
	}
	for k := range st.m {
		keys[k] = true
	}
	var ks []string
	for k := range keys {
		ks = append(ks, k)
	}
	sortStrings(ks)
	for _, k := range ks {
		if strings.HasPrefix(k, "HS.") || strings.HasPrefix(k, "HM.") || (ghosts && strings.HasPrefix(k, "ghost.")) {
			if srt, ok := stateSorts[k]; ok {
				st.m[k] = e.baseHeap(st, k, "@havoc", srt)
			}
		}
	}
}

// havocCall abstracts a call without contract: results unconstrained, memory
// reachable from the arguments havocked.
func (e *Enc) havocCall(fr *Frame, ct callTarget, args []Val, common *ssa.CallCommon, st *State, reach Term) (Val, *State) {
	e.abstracted++
	e.calleesHavoc[ct.name] = true
	e.note("call to %s abstracted (no contract): result unconstrained, argument-reachable memory havocked", ct.name)
	preHavoc := st.clone()
	defer func() { e.restoreLocals(fr, preHavoc, st, nil) }()
	// an in-package callee with a body: exactly the heaps its code (and the
	// closures handed to it) can write, by the type-based mod analysis
	deep := false
	if ct.inPkg && ct.fn != nil && len(ct.fn.Blocks) > 0 {
		if mods := e.calleeMods(ct, args); !mods["*"] {
			e.havocMods(st, mods)
			deep = true
		}
	}
	for _, a := range args {
		if a.Typ == nil || deep {
			continue
		}
		if a.P != nil && a.T == "" {
			e.setPlace(st, a.P, e.freshOf("hv", a.P.Typ, st))
			e.havocReachable(st, a.P.Typ, map[string]bool{})
			continue
		}
		switch u := a.Typ.Underlying().(type) {
		case *types.Pointer:
			stateSorts[e.B.heapName(u.Elem())] = e.B.heapSort(u.Elem())
			e.storeCell(st, a.T, u.Elem(), e.freshOf("hv", u.Elem(), st))
			e.havocReachable(st, u.Elem(), map[string]bool{})
		case *types.Slice:
			e.havocArray(st, u.Elem(), "(sarr "+a.T+")")
			e.havocReachable(st, u.Elem(), map[string]bool{})
		case *types.Map:
			e.havocMap(st, u, a.T)
		}
		// closures may write their captured cells
		for _, b := range a.Binds {
			if pt, ok := b.Typ.Underlying().(*types.Pointer); ok && b.T != "" {
				stateSorts[e.B.heapName(pt.Elem())] = e.B.heapSort(pt.Elem())
				e.storeCell(st, b.T, pt.Elem(), e.freshOf("hv", pt.Elem(), st))
			}
		}
	}
	if ct.inPkg && ct.fn != nil && len(ct.fn.Blocks) > 0 {
		// tracked events the callee can reach (static call graph)
		fx := e.ghostEffects(ct.fn)
		var names []string
		if fx["*"] {
			names = append(names, e.CS.GhostOrder...)
			names = append(names, "sends", "nilsends", "recvs")
		} else {
			for k := range fx {
				names = append(names, strings.TrimPrefix(k, "ghost."))
			}
			sortStrings(names)
		}
		for _, g := range names {
			if g == "closes" {
				continue
			}
			key, srt, _ := e.ghostKey(g)
			st.m[key] = e.B.declConst(key, srt)
		}
		if len(names) == 0 {
			e.note("%s reaches no tracked event (static call graph): ghost state unchanged across the call", ct.name)
		}
	} else if strings.HasPrefix(ct.name, "dynamic:") {
		e.note("call through a function value (%s): assumed not to touch tracked state", ct.name)
	}
	e.havocAlloc(st)
	return e.resultVal("hres."+sanitize(ct.name), ct.sig, st), st
}

// havocReachable havocs the whole heaps of every type reachable from t through
// pointers, slices and maps.
func (e *Enc) havocReachable(st *State, t types.Type, seen map[string]bool) {
	switch u := t.Underlying().(type) {
	case *types.Struct:
		k := "S:" + e.B.sortOf(t)
		if seen[k] {
			return
		}
		seen[k] = true
		for i := 0; i < u.NumFields(); i++ {
			e.havocReachable(st, u.Field(i).Type(), seen)
		}
	case *types.Pointer:
		k := e.B.heapName(u.Elem())
		if seen[k] {
			return
		}
		seen[k] = true
		stateSorts[k] = e.B.heapSort(u.Elem())
		st.m[k] = e.baseHeap(st, k, "@havoc", e.B.heapSort(u.Elem()))
		e.havocReachable(st, u.Elem(), seen)
	case *types.Slice:
		k := e.B.heapName(u.Elem())
		if seen[k] {
			return
		}
		seen[k] = true
		stateSorts[k] = e.B.heapSort(u.Elem())
		st.m[k] = e.baseHeap(st, k, "@havoc", e.B.heapSort(u.Elem()))
		e.havocReachable(st, u.Elem(), seen)
	case *types.Array:
		e.havocReachable(st, u.Elem(), seen)
	case *types.Map:
		for _, part := range []string{"dom", "val"} {
			k := e.mapKey(u, part)
			if !seen[k] {
				seen[k] = true
				st.m[k] = e.B.declConst(k+"@havoc", e.mapSort(u, part))
			}
		}
		e.havocReachable(st, u.Elem(), seen)
	}
}

// scanCallMods mirrors the call encoding for loop mod-set computation.
func (e *Enc) scanCallMods(fn *ssa.Function, ci ssa.CallInstruction, mods map[string]bool, depth int) {
	common := ci.Common()
	if _, isDefer := ci.(*ssa.Defer); isDefer {
		return
	}
	ct := e.classify(common, nil)
	switch ct.kind {
	case "builtin":
		switch ct.name {
		case "append":
			mods["alloc"] = true
			if sl, ok := common.Args[0].Type().Underlying().(*types.Slice); ok {
				mods["~"+e.B.heapName(sl.Elem())] = true
				stateSorts[e.B.heapName(sl.Elem())] = e.B.heapSort(sl.Elem())
			}
		case "copy":
			if sl, ok := common.Args[0].Type().Underlying().(*types.Slice); ok {
				mods[e.B.heapName(sl.Elem())] = true
				stateSorts[e.B.heapName(sl.Elem())] = e.B.heapSort(sl.Elem())
			}
		case "delete":
			mt := common.Args[0].Type().Underlying().(*types.Map)
			mods[e.mapKey(mt, "dom")] = true
			mods[e.mapKey(mt, "val")] = true
		}
	case "contract":
		if !ct.con.Pure {
			mods["alloc"] = true
		}
		for _, target := range ct.con.Modifies {
			switch {
			case target == "all":
				mods["*"] = true
			case target == "heaps":
				for k := range e.calleeMods(ct, nil) {
					if k == "*" {
						mods["*heaps"] = true
					} else {
						mods[k] = true
					}
				}
				for _, a := range common.Args {
					if mc, ok := a.(*ssa.MakeClosure); ok {
						for k := range e.deepMods(mc.Fn.(*ssa.Function)) {
							if k == "*" {
								mods["*heaps"] = true
							} else {
								mods[k] = true
							}
						}
					}
				}
			case strings.HasPrefix(target, "ghost."):
				key, _, _ := e.ghostKey(strings.TrimPrefix(target, "ghost."))
				mods[key] = true
			case strings.HasPrefix(target, "heap("):
				if t := e.lookupType(target[5 : len(target)-1]); t != nil {
					mods[e.B.heapName(t)] = true
					stateSorts[e.B.heapName(t)] = e.B.heapSort(t)
				}
			default:
				// resolve the static type of the target against the callee signature
				e.scanModTarget(ct, target, mods)
			}
		}
		// copy-in/out of interior pointer arguments writes the root heap
		for _, a := range common.Args {
			if _, ok := a.Type().Underlying().(*types.Pointer); ok {
				switch a.(type) {
				case *ssa.FieldAddr, *ssa.IndexAddr:
					if len(ct.con.Modifies) > 0 {
						e.scanAddrMods(a, mods)
					}
					mods["alloc"] = true
				}
			}
		}
	case "inline":
		if depth > 5 {
			mods["*"] = true
			return
		}
		mods["alloc"] = true
		e.scanFuncMods(ct.fn, mods, depth+1)
		for _, a := range common.Args {
			switch a.(type) {
			case *ssa.FieldAddr, *ssa.IndexAddr:
				e.scanAddrMods(a, mods)
			}
		}
	default:
		mods["alloc"] = true
		if ct.inPkg && ct.fn != nil && len(ct.fn.Blocks) > 0 {
			fx := e.ghostEffects(ct.fn)
			if fx["*"] {
				mods["*"] = true
				return
			}
			for k := range fx {
				if k != "ghost.closes" {
					key, _, _ := e.ghostKey(strings.TrimPrefix(k, "ghost."))
					mods[key] = true
				}
			}
		}
		// argument-reachable memory
		var argTypes []types.Type
		if common.IsInvoke() {
			argTypes = append(argTypes, common.Value.Type())
		}
		for _, a := range common.Args {
			argTypes = append(argTypes, a.Type())
			if mc, ok := a.(*ssa.MakeClosure); ok {
				for _, b := range mc.Bindings {
					argTypes = append(argTypes, b.Type())
				}
			}
		}
		for _, t := range argTypes {
			e.scanReachable(t, mods, map[string]bool{})
		}
	}
}

func (e *Enc) scanReachable(t types.Type, mods map[string]bool, seen map[string]bool) {
	switch u := t.Underlying().(type) {
	case *types.Struct:
		k := "S:" + e.B.sortOf(t)
		if seen[k] {
			return
		}
		seen[k] = true
		for i := 0; i < u.NumFields(); i++ {
			e.scanReachable(u.Field(i).Type(), mods, seen)
		}
	case *types.Pointer:
		k := e.B.heapName(u.Elem())
		if seen[k] {
			return
		}
		seen[k] = true
		mods[k] = true
		stateSorts[k] = e.B.heapSort(u.Elem())
		e.scanReachable(u.Elem(), mods, seen)
	case *types.Slice:
		k := e.B.heapName(u.Elem())
		if seen[k] {
			return
		}
		seen[k] = true
		mods[k] = true
		stateSorts[k] = e.B.heapSort(u.Elem())
		e.scanReachable(u.Elem(), mods, seen)
	case *types.Array:
		e.scanReachable(u.Elem(), mods, seen)
	case *types.Map:
		mods[e.mapKey(u, "dom")] = true
		mods[e.mapKey(u, "val")] = true
		e.scanReachable(u.Elem(), mods, seen)
	}
}

// scanModTarget resolves the heap a modifies target of a contract touches,
// using only static types.
func (e *Enc) scanModTarget(ct callTarget, target string, mods map[string]bool) {
	isArr := strings.HasSuffix(target, "[*]")
	isMap := strings.HasPrefix(target, "map(")
	src := strings.TrimSuffix(target, "[*]")
	if isMap {
		src = strings.TrimSuffix(strings.TrimPrefix(target, "map("), ")")
	}
	x, err := parseExpr(src)
	if err != nil {
		mods["*"] = true
		return
	}
	names := paramNames(ct)
	ptypes := map[string]types.Type{}
	var sigTypes []types.Type
	if ct.recvArg {
		if ct.fn != nil && ct.fn.Signature.Recv() != nil {
			sigTypes = append(sigTypes, ct.fn.Signature.Recv().Type())
		} else {
			sigTypes = append(sigTypes, types.NewInterfaceType(nil, nil))
		}
	}
	for i := 0; i < ct.sig.Params().Len(); i++ {
		sigTypes = append(sigTypes, ct.sig.Params().At(i).Type())
	}
	for i, n := range names {
		if i < len(sigTypes) {
			ptypes[n] = sigTypes[i]
		}
	}
	if ct.fn != nil {
		for _, fv := range ct.fn.FreeVars {
			if pt, ok := fv.Type().Underlying().(*types.Pointer); ok {
				ptypes[fv.Name()] = pt.Elem()
				// captured variable cell
			}
		}
	}
	t, root := e.staticType(x, ptypes)
	if t == nil {
		mods["*"] = true
		return
	}
	if isArr {
		if sl, ok := t.Underlying().(*types.Slice); ok {
			mods[e.B.heapName(sl.Elem())] = true
			stateSorts[e.B.heapName(sl.Elem())] = e.B.heapSort(sl.Elem())
			return
		}
		mods["*"] = true
		return
	}
	if isMap {
		if mt, ok := t.Underlying().(*types.Map); ok {
			mods[e.mapKey(mt, "dom")] = true
			mods[e.mapKey(mt, "val")] = true
			return
		}
		mods["*"] = true
		return
	}
	if root == nil {
		mods["*"] = true
		return
	}
	mods[e.B.heapName(root)] = true
	stateSorts[e.B.heapName(root)] = e.B.heapSort(root)
}

// staticType computes the type of a target expression and the type of the heap
// object it lives in.
func (e *Enc) staticType(x *Expr, ptypes map[string]types.Type) (types.Type, types.Type) {
	switch x.Op {
	case "ident":
		t, ok := ptypes[x.Name]
		if !ok {
			// package-level variable: it lives in its own cell
			if obj := e.L.Pkg.Pkg.Scope().Lookup(x.Name); obj != nil {
				if v, isVar := obj.(*types.Var); isVar {
					return v.Type(), v.Type()
				}
			}
			return nil, nil
		}
		return t, nil
	case "un":
		if x.Name == "*" {
			t, _ := e.staticType(x.Args[0], ptypes)
			if t == nil {
				return nil, nil
			}
			if pt, ok := t.Underlying().(*types.Pointer); ok {
				return pt.Elem(), pt.Elem()
			}
		}
	case "sel":
		t, root := e.staticType(x.Args[0], ptypes)
		if t == nil {
			return nil, nil
		}
		if pt, ok := t.Underlying().(*types.Pointer); ok {
			t = pt.Elem()
			root = t
		}
		if st, ok := t.Underlying().(*types.Struct); ok {
			for i := 0; i < st.NumFields(); i++ {
				if st.Field(i).Name() == x.Name {
					return st.Field(i).Type(), root
				}
			}
		}
	case "idx":
		t, _ := e.staticType(x.Args[0], ptypes)
		if t == nil {
			return nil, nil
		}
		if sl, ok := t.Underlying().(*types.Slice); ok {
			return sl.Elem(), sl.Elem()
		}
	}
	return nil, nil
}

// ---------------------------------------------------------------------------
// Builtins
// ---------------------------------------------------------------------------

func (e *Enc) encodeBuiltin(fr *Frame, ins ssa.Value, common *ssa.CallCommon, args []Val, st *State, reach Term) (Val, *State) {
	name := common.Value.Name()
	switch name {
	case "len", "cap":
		a := args[0]
		switch u := common.Args[0].Type().Underlying().(type) {
		case *types.Slice:
			if name == "cap" {
				return Val{T: "(scap " + a.T + ")"}, st
			}
			return Val{T: "(slen " + a.T + ")"}, st
		case *types.Basic:
			t := e.B.define("strlen", "Int", "(strlen "+a.T+")")
			e.B.assume("(>= " + t + " 0)")
			e.B.assume(fmt.Sprintf("(= (= %s 0) (= %s emptystr))", t, a.T))
			return Val{T: t}, st
		case *types.Map:
			t := e.B.define("maplen", "Int", e.mapLen(st, u, a.T))
			e.B.assume("(>= " + t + " 0)")
			return Val{T: t}, st
		case *types.Chan:
			if name == "cap" {
				e.B.declTop("chcap", "(declare-fun chcap (Int) Int)")
				return Val{T: "(chcap " + a.T + ")"}, st
			}
			v := e.B.declConst("chlen", "Int")
			e.B.assume("(>= " + v + " 0)")
			return Val{T: v}, st
		case *types.Array:
			return Val{T: fmt.Sprint(u.Len())}, st
		case *types.Pointer:
			if at, ok := u.Elem().Underlying().(*types.Array); ok {
				return Val{T: fmt.Sprint(at.Len())}, st
			}
		}
		fail("len of %s", common.Args[0].Type())
	case "append":
		return e.encodeAppend(fr, common, args, st, reach), st
	case "copy":
		// copy(dst, src): n = min(len dst, len src) elements
		dst, src := args[0], args[1]
		sl, ok := common.Args[0].Type().Underlying().(*types.Slice)
		if !ok {
			fail("copy dst type")
		}
		n := e.B.define("copyn", "Int", fmt.Sprintf("(imin (slen %s) (slen %s))", dst.T, src.T))
		if _, srcIsSlice := common.Args[1].Type().Underlying().(*types.Slice); !srcIsSlice {
			n = e.B.define("copyn", "Int", fmt.Sprintf("(imin (slen %s) (strlen %s))", dst.T, src.T))
			e.havocArray(st, sl.Elem(), "(sarr "+dst.T+")")
			return Val{T: n}, st
		}
		h := e.heapOf(st, sl.Elem())
		es := e.B.sortOf(sl.Elem())
		na := e.B.declConst("copied", "(Array Int "+es+")")
		qi := e.B.freshName("ci")
		e.B.assume(fmt.Sprintf("(forall ((%s Int)) (! (= (select %s %s) (ite (and (<= (soff %s) %s) (< %s (+ (soff %s) %s))) (select (select %s (sarr %s)) (+ (soff %s) (- %s (soff %s)))) (select (select %s (sarr %s)) %s))) :pattern ((select %s %s))))",
			qi, na, qi, dst.T, qi, qi, dst.T, n, h, src.T, src.T, qi, dst.T, h, dst.T, qi, na, qi))
		stateSorts[e.B.heapName(sl.Elem())] = e.B.heapSort(sl.Elem())
		e.set(st, e.B.heapName(sl.Elem()), e.B.heapSort(sl.Elem()), fmt.Sprintf("(store %s (sarr %s) %s)", h, dst.T, na))
		return Val{T: n}, st
	case "delete":
		mt := common.Args[0].Type().Underlying().(*types.Map)
		dom := e.get(st, e.mapKey(mt, "dom"), e.mapSort(mt, "dom"))
		e.set(st, e.mapKey(mt, "dom"), e.mapSort(mt, "dom"), fmt.Sprintf("(store %s %s (store (select %s %s) %s false))", dom, args[0].T, dom, args[0].T, args[1].T))
		return Val{}, st
	case "min", "max":
		f := "imin"
		if name == "max" {
			f = "imax"
		}
		t := args[0].T
		for _, a := range args[1:] {
			t = "(" + f + " " + t + " " + a.T + ")"
		}
		return Val{T: e.B.define(name, "Int", t)}, st
	case "close":
		e.ghostBump(st, "ghost.closes", args[0].T, "true")
		return Val{}, st
	case "print", "println":
		return Val{}, st
	case "recover":
		return Val{T: "niliface"}, st
	case "ssa:wrapnilchk":
		return args[0], st
	case "SliceData", "StringData", "String", "Slice", "Add", "clear":
		// unsafe views and clear(): abstracted (result unconstrained)
		e.abstracted++
		e.note("unsafe/clear builtin %s in %s abstracted", name, fr.fn.Name())
		if ins == nil || ins.Type() == nil {
			return Val{}, st
		}
		if tup, ok := ins.Type().(*types.Tuple); ok && tup.Len() == 0 {
			return Val{}, st
		}
		return Val{T: e.freshOf("unsafe", ins.Type(), st)}, st
	}
	fail("unsupported builtin %s", name)
	return Val{}, st
}

// encodeAppend models append as producing a fresh backing array holding the
// old elements followed by the new ones (DESIGN §11).
func (e *Enc) encodeAppend(fr *Frame, common *ssa.CallCommon, args []Val, st *State, reach Term) Val {
	s, add := args[0], args[1]
	sl := common.Args[0].Type().Underlying().(*types.Slice)
	elem := sl.Elem()
	es := e.B.sortOf(elem)
	stateSorts[e.B.heapName(elem)] = e.B.heapSort(elem)
	h := e.heapOf(st, elem)
	ref := e.newRef(st)
	var addLen Term
	_, addIsSlice := common.Args[1].Type().Underlying().(*types.Slice)
	if addIsSlice {
		addLen = "(slen " + add.T + ")"
	} else {
		addLen = "(strlen " + add.T + ")" // append([]byte, string...)
	}
	newLen := e.B.define("applen", "Int", fmt.Sprintf("(+ (slen %s) %s)", s.T, addLen))
	e.appendOwnership(fr, common, s, newLen, st, reach)
	na := e.B.declConst("appended", "(Array Int "+es+")")
	qi := e.B.freshName("ai")
	if addIsSlice {
		e.B.assume(fmt.Sprintf("(forall ((%s Int)) (! (=> (and (<= 0 %s) (< %s %s)) (= (select %s %s) (ite (< %s (slen %s)) (select (select %s (sarr %s)) (+ (soff %s) %s)) (select (select %s (sarr %s)) (+ (soff %s) (- %s (slen %s))))))) :pattern ((select %s %s))))",
			qi, qi, qi, newLen, na, qi, qi, s.T, h, s.T, s.T, qi, h, add.T, add.T, qi, s.T, na, qi))
	} else {
		e.B.assume(fmt.Sprintf("(forall ((%s Int)) (! (=> (and (<= 0 %s) (< %s (slen %s))) (= (select %s %s) (select (select %s (sarr %s)) (+ (soff %s) %s)))) :pattern ((select %s %s))))",
			qi, qi, qi, s.T, na, qi, h, s.T, s.T, qi, na, qi))
	}
	if addIsSlice {
		e.appendSumFacts(es, na, fmt.Sprintf("(select %s (sarr %s))", h, s.T), "(soff "+s.T+")", "(slen "+s.T+")",
			fmt.Sprintf("(select %s (sarr %s))", h, add.T), "(soff "+add.T+")", "(slen "+add.T+")")
	}
	// the same facts triggered from the operands' side: every element of the old
	// slice (and of the appended one) is found in the result
	if e.con != nil && e.con.HeapFacts {
		oldArr := e.B.define("appold", "(Array Int "+es+")", fmt.Sprintf("(select %s (sarr %s))", h, s.T))
		qb := e.B.freshName("ab")
		e.B.assume(fmt.Sprintf("(forall ((%s Int)) (! (=> (and (<= (soff %s) %s) (< %s (+ (soff %s) (slen %s)))) (= (select %s %s) (select %s (- %s (soff %s))))) :pattern ((select %s %s))))",
			qb, s.T, qb, qb, s.T, s.T, oldArr, qb, na, qb, s.T, oldArr, qb))
		if addIsSlice {
			addArr := e.B.define("appadd", "(Array Int "+es+")", fmt.Sprintf("(select %s (sarr %s))", h, add.T))
			qc := e.B.freshName("ac")
			e.B.assume(fmt.Sprintf("(forall ((%s Int)) (! (=> (and (<= (soff %s) %s) (< %s (+ (soff %s) (slen %s)))) (= (select %s %s) (select %s (+ (slen %s) (- %s (soff %s)))))) :pattern ((select %s %s))))",
				qc, add.T, qc, qc, add.T, add.T, addArr, qc, na, s.T, qc, add.T, addArr, qc))
		}
	}
	e.set(st, e.B.heapName(elem), e.B.heapSort(elem), fmt.Sprintf("(store %s %s %s)", h, ref, na))
	cp := e.B.declConst("appcap", "Int")
	e.B.assume("(>= " + cp + " " + newLen + ")")
	return Val{T: e.B.define("appres", "Slice", fmt.Sprintf("(mkslice %s 0 %s %s)", ref, newLen, cp))}
}

// ---------------------------------------------------------------------------
// Defers
// ---------------------------------------------------------------------------

func (e *Enc) runDefersIfAny(fr *Frame, st *State, reach Term) *State { return st }

func (e *Enc) runDefers(fr *Frame, st *State, reach Term) *State {
	// deferred calls in reverse registration order; registration order on any
	// path agrees with reverse-postorder position because no defer sits in a loop
	type dref struct {
		d   *ssa.Defer
		key string
	}
	var ds []dref
	for _, b := range fr.rpo {
		for i, ins := range b.Instrs {
			if d, ok := ins.(*ssa.Defer); ok {
				ds = append(ds, dref{d, fmt.Sprintf("defer.%d.%d.%d", fr.id, b.Index, i)})
			}
		}
	}
	for i := len(ds) - 1; i >= 0; i-- {
		flag, ok := st.m[ds[i].key]
		if !ok || flag == "false" {
			continue
		}
		cond := and(reach, flag)
		before := st.clone()
		after := e.encodeCall(fr, nil, ds[i].d.Common(), st.clone(), cond)
		st = e.mergeStates([]Term{flag, "true"}, []*State{after, before})
	}
	return st
}

// ---------------------------------------------------------------------------
// Channels
// ---------------------------------------------------------------------------

func (e *Enc) ghostBump(st *State, key string, idx Term, cond Term) {
	stateSorts[key] = "(Array Int Int)"
	cur := e.get(st, key, "(Array Int Int)")
	upd := fmt.Sprintf("(store %s %s (+ (select %s %s) 1))", cur, idx, cur, idx)
	e.set(st, key, "(Array Int Int)", ite(cond, upd, cur))
}

func (e *Enc) encodeSend(fr *Frame, ch, x Val, xt types.Type, st *State, reach Term, cond Term) *State {
	e.ghostBump(st, "ghost.sends", ch.T, cond)
	if e.B.sortOf(xt) == "Iface" {
		e.ghostBump(st, "ghost.nilsends", ch.T, and(cond, "(= "+x.T+" niliface)"))
	}
	return st
}

func (e *Enc) encodeSelect(fr *Frame, t *ssa.Select, st *State, reach Term) *State {
	e.anchored(fr, "select", t, st, reach)
	n := len(t.States)
	idx := e.B.declConst(fr.vname(t)+".idx", "Int")
	lo := 0
	if !t.Blocking {
		lo = -1
	}
	e.B.assume(fmt.Sprintf("(and (<= %s %s) (< %s %d))", ilit(int64(lo)), idx, idx, n))
	tup := []Val{{T: idx, Typ: types.Typ[types.Int]}, {T: e.B.declConst("recvok", "Bool"), Typ: types.Typ[types.Bool]}}
	for i, s := range t.States {
		ch := e.val(fr, s.Chan)
		chosen := fmt.Sprintf("(= %s %d)", idx, i)
		// a case on a nil channel is never ready
		e.B.assume(implies(chosen, "(not (= "+ch.T+" 0))"))
		if s.Dir == types.SendOnly {
			st = e.encodeSend(fr, ch, e.val(fr, s.Send), s.Send.Type(), st, reach, chosen)
		} else {
			e.ghostBump(st, "ghost.recvs", ch.T, chosen)
			elem := s.Chan.Type().Underlying().(*types.Chan).Elem()
			tup = append(tup, Val{T: e.freshOf("selrecv", elem, st), Typ: elem})
		}
	}
	fr.vals[t] = Val{Tup: tup, Typ: t.Type()}
	return st
}

// ---------------------------------------------------------------------------
// Maps
// ---------------------------------------------------------------------------

func (e *Enc) mapKey(mt *types.Map, part string) string {
	k := "HM." + sanitize(e.B.sortOf(mt.Key())) + "." + sanitize(e.B.sortOf(mt.Elem())) + "." + part
	stateSorts[k] = e.mapSort(mt, part)
	return k
}

func (e *Enc) mapSort(mt *types.Map, part string) string {
	ks := e.B.sortOf(mt.Key())
	if part == "dom" {
		return "(Array Int (Array " + ks + " Bool))"
	}
	return "(Array Int (Array " + ks + " " + e.B.sortOf(mt.Elem()) + "))"
}

func (e *Enc) mapInit(st *State, mt *types.Map, ref Term) {
	ks := e.B.sortOf(mt.Key())
	dom := e.get(st, e.mapKey(mt, "dom"), e.mapSort(mt, "dom"))
	e.set(st, e.mapKey(mt, "dom"), e.mapSort(mt, "dom"), fmt.Sprintf("(store %s %s ((as const (Array %s Bool)) false))", dom, ref, ks))
}

func (e *Enc) havocMap(st *State, mt *types.Map, ref Term) {
	ks := e.B.sortOf(mt.Key())
	dom := e.get(st, e.mapKey(mt, "dom"), e.mapSort(mt, "dom"))
	val := e.get(st, e.mapKey(mt, "val"), e.mapSort(mt, "val"))
	e.set(st, e.mapKey(mt, "dom"), e.mapSort(mt, "dom"), fmt.Sprintf("(store %s %s %s)", dom, ref, e.B.declConst("mdom", "(Array "+ks+" Bool)")))
	e.set(st, e.mapKey(mt, "val"), e.mapSort(mt, "val"), fmt.Sprintf("(store %s %s %s)", val, ref, e.B.declConst("mval", "(Array "+ks+" "+e.B.sortOf(mt.Elem())+")")))
}

func (e *Enc) mapLen(st *State, mt *types.Map, ref Term) Term {
	ks := e.B.sortOf(mt.Key())
	fn := "mapcard." + sanitize(ks)
	e.B.declTop(fn, fmt.Sprintf("(declare-fun %s ((Array %s Bool)) Int)\n(assert (= (%s ((as const (Array %s Bool)) false)) 0))", fn, ks, fn, ks))
	dom := e.get(st, e.mapKey(mt, "dom"), e.mapSort(mt, "dom"))
	return fmt.Sprintf("(%s (select %s %s))", fn, dom, ref)
}

func (e *Enc) encodeLookup(fr *Frame, t *ssa.Lookup, st *State, reach Term) *State {
	x := e.val(fr, t.X)
	idx := e.val(fr, t.Index)
	mt, ok := t.X.Type().Underlying().(*types.Map)
	if !ok {
		// string index
		e.B.declTop("strbyte", "(declare-fun strbyte (Str Int) Int)")
		e.bind(fr, t, fmt.Sprintf("(strbyte %s %s)", x.T, idx.T))
		return st
	}
	dom := e.get(st, e.mapKey(mt, "dom"), e.mapSort(mt, "dom"))
	val := e.get(st, e.mapKey(mt, "val"), e.mapSort(mt, "val"))
	present := fmt.Sprintf("(select (select %s %s) %s)", dom, x.T, idx.T)
	v := ite(present, fmt.Sprintf("(select (select %s %s) %s)", val, x.T, idx.T), e.B.zeroOf(mt.Elem()))
	if t.CommaOk {
		vn := e.B.define(fr.vname(t)+".v", e.B.sortOf(mt.Elem()), v)
		e.assumeWF(vn, mt.Elem(), st)
		on := e.B.define(fr.vname(t)+".ok", "Bool", present)
		fr.vals[t] = Val{Tup: []Val{{T: vn, Typ: mt.Elem()}, {T: on, Typ: types.Typ[types.Bool]}}, Typ: t.Type()}
		return st
	}
	e.bind(fr, t, v)
	e.assumeWF(fr.vals[t].T, mt.Elem(), st)
	return st
}

func (e *Enc) encodeMapUpdate(fr *Frame, t *ssa.MapUpdate, st *State, reach Term) *State {
	m := e.val(fr, t.Map)
	k := e.val(fr, t.Key)
	v := e.val(fr, t.Value)
	mt := t.Map.Type().Underlying().(*types.Map)
	if e.safetyOn() {
		e.addObl(fr, "nil-map", implies(reach, "(not (= "+m.T+" 0))"), "assignment to map", t.Pos(), nil)
	}
	dom := e.get(st, e.mapKey(mt, "dom"), e.mapSort(mt, "dom"))
	val := e.get(st, e.mapKey(mt, "val"), e.mapSort(mt, "val"))
	e.set(st, e.mapKey(mt, "dom"), e.mapSort(mt, "dom"), fmt.Sprintf("(store %s %s (store (select %s %s) %s true))", dom, m.T, dom, m.T, k.T))
	e.set(st, e.mapKey(mt, "val"), e.mapSort(mt, "val"), fmt.Sprintf("(store %s %s (store (select %s %s) %s %s))", val, m.T, val, m.T, k.T, v.T))
	return st
}

func (e *Enc) encodeRange(fr *Frame, t *ssa.Range, st *State) *State {
	x := e.val(fr, t.X)
	it := &iterState{mapVal: x}
	switch u := t.X.Type().Underlying().(type) {
	case *types.Map:
		it.mapType = u
		it.visited = fmt.Sprintf("iter.%d.%s", fr.id, t.Name())
		ks := e.B.sortOf(u.Key())
		stateSorts[it.visited] = "(Array " + ks + " Bool)"
		st.m[it.visited] = fmt.Sprintf("((as const (Array %s Bool)) false)", ks)
	case *types.Basic:
		it.isStr = true
	default:
		fail("range over %s", t.X.Type())
	}
	fr.iterInfo[t] = it
	fr.vals[t] = Val{T: "0", Typ: t.Type()}
	return st
}

func (e *Enc) encodeNext(fr *Frame, t *ssa.Next, st *State, reach Term) *State {
	it := fr.iterInfo[t.Iter]
	if it == nil {
		fail("next on unknown iterator")
	}
	ok := e.B.declConst(fr.vname(t)+".ok", "Bool")
	if it.isStr {
		e.abstracted++
		k := e.B.declConst("ridx", "Int")
		r := e.B.declConst("rune", "Int")
		fr.vals[t] = Val{Tup: []Val{{T: ok, Typ: types.Typ[types.Bool]}, {T: k, Typ: types.Typ[types.Int]}, {T: r, Typ: types.Typ[types.Rune]}}, Typ: t.Type()}
		return st
	}
	mt := it.mapType
	ks := e.B.sortOf(mt.Key())
	k := e.B.declConst(fr.vname(t)+".k", ks)
	e.assumeWF(k, mt.Key(), st)
	dom := e.get(st, e.mapKey(mt, "dom"), e.mapSort(mt, "dom"))
	val := e.get(st, e.mapKey(mt, "val"), e.mapSort(mt, "val"))
	vis := e.get(st, it.visited, stateSorts[it.visited])
	m := it.mapVal.T
	e.B.assume(implies(and(reach, ok), fmt.Sprintf("(and (select (select %s %s) %s) (not (select %s %s)))", dom, m, k, vis, k)))
	qk := e.B.freshName("qk")
	e.B.assume(implies(and(reach, not(ok)), fmt.Sprintf("(forall ((%s %s)) (! (=> (select (select %s %s) %s) (select %s %s)) :pattern ((select %s %s))))", qk, ks, dom, m, qk, vis, qk, vis, qk)))
	// a store with a conditional *value* rather than an ite between two arrays:
	// reads of the new set then reduce to reads of the old one by the array
	// theory alone, which is what lets quantified facts about the old set fire
	e.set(st, it.visited, stateSorts[it.visited], fmt.Sprintf("(store %s %s (or %s (select %s %s)))", vis, k, ok, vis, k))
	v := e.B.define(fr.vname(t)+".v", e.B.sortOf(mt.Elem()), fmt.Sprintf("(select (select %s %s) %s)", val, m, k))
	e.assumeWF(v, mt.Elem(), st)
	fr.vals[t] = Val{Tup: []Val{{T: ok, Typ: types.Typ[types.Bool]}, {T: k, Typ: mt.Key()}, {T: v, Typ: mt.Elem()}}, Typ: t.Type()}
	return st
}
