package main

import (
	"encoding/json"
	"flag"
	"fmt"
	"os"
	"path/filepath"
	"sort"
	"strconv"
	"strings"
	"sync"
	"time"

	"golang.org/x/tools/go/ssa"
)

type KnownFinding struct {
	Property   string `json:"property"`
	Obligation string `json:"obligation"`
	Status     string `json:"status"` // open | fixed
	WhatFails  string `json:"what_fails"`
	Commit     string `json:"commit,omitempty"`
	Witness    string `json:"witness_class,omitempty"`
}

func loadKnownFindings() []KnownFinding {
	var kf []KnownFinding
	b, err := os.ReadFile("/verif/known_findings.json")
	if err != nil {
		return nil
	}
	var wrap struct {
		Findings []KnownFinding `json:"findings"`
	}
	if json.Unmarshal(b, &wrap) == nil {
		kf = wrap.Findings
	}
	return kf
}

type oblOutcome struct {
	O            *Obligation
	R            SolveResult
	FR           *FuncResult
	OK           bool
	Inconclusive bool
	Replay       *ReplayOutcome
}

func hasProp(props []string, p string) bool {
	for _, q := range props {
		if q == p {
			return true
		}
	}
	return false
}

func cmdCheck(args []string) {
	fs := flag.NewFlagSet("check", flag.ExitOnError)
	prop := fs.String("property", "", "property id")
	tier := fs.String("tier", "quick", "quick|thorough")
	only := fs.String("func", "", "only this function (debug)")
	onlyObl := fs.String("obligation", "", "only this obligation (replay)")
	verbose := fs.Bool("v", false, "verbose")
	fs.Parse(args)
	start := time.Now()
	curTier = *tier
	checkProp = *prop
	seed := 0
	if s := os.Getenv("VERIF_SEED"); s != "" {
		seed, _ = strconv.Atoi(s)
	}
	toolErr := func(format string, a ...any) {
		fmt.Printf("TOOL-ERROR: "+format+"\n", a...)
		os.Exit(2)
	}
	l, err := loadRepo()
	if err != nil {
		toolErr("load: %v", err)
	}
	cs, err := parseContracts(contractsPath())
	if err != nil {
		toolErr("contracts: %v", err)
	}
	timeout := 10
	if *tier == "thorough" {
		timeout = 60
	}
	if t := os.Getenv("VERIF_TIMEOUT"); t != "" {
		timeout, _ = strconv.Atoi(t)
	}

	// functions under contract for this property
	var results []*FuncResult
	var funcsUnder []string
	for _, name := range cs.Order {
		con := cs.Funcs[name]
		if con.Extern || con.Assumed != "" {
			continue
		}
		if *only != "" && name != *only {
			continue
		}
		if *prop != "" && !con.hasProp(*prop) {
			tagged := false
			for _, cl := range append(append([]*Clause{}, con.Ensures...), con.Requires...) {
				if hasProp(cl.Props, *prop) {
					tagged = true
				}
			}
			for _, invs := range con.LoopInvs {
				for _, cl := range invs {
					if hasProp(cl.Props, *prop) {
						tagged = true
					}
				}
			}
			for _, aa := range con.Asserts {
				if aa.Clause != nil && hasProp(aa.Clause.Props, *prop) {
					tagged = true
				}
			}
			if !tagged {
				continue
			}
		}
		fn := l.Funcs[name]
		if fn == nil {
			// closure anchors
			fn = resolveAnchored(l, name)
		}
		if fn == nil {
			toolErr("contract target %q not found in the package", name)
		}
		fr := verifyFunction(l, cs, fn, con)
		if fr.Err != "" {
			// The contract no longer binds to the function's code (a loop it
			// names is gone or changed shape, a name it uses no longer exists,
			// an instruction left the supported subset): nothing is proved
			// about this function, which is reported as a failed obligation —
			// never as success, and not as a tool failure either.
			fr.Obls = []*Obligation{{Name: name + "/contract-binding", Kind: "contract-binding", Fn: name, Props: []string{*prop},
				Goal: "false", Src: fr.Err, Where: l.Prog.Fset.Position(fn.Pos()).String()}}
			fr.Unbound = fr.Err
		}
		results = append(results, fr)
		funcsUnder = append(funcsUnder, name)
		if *verbose {
			for _, n := range fr.Notes {
				fmt.Printf("note %s: %s\n", name, n)
			}
		}
	}
	if len(results) == 0 {
		toolErr("no function under contract for property %s", *prop)
	}
	results = append(results, plainCodecResults(l, cs, *prop)...)
	for _, fr := range results {
		if fr.UsesSum {
			for _, lr := range lemmaResults() {
				for _, o := range lr.Obls {
					o.Props = []string{*prop}
				}
				results = append(results, lr)
			}
			break
		}
	}

	// discharge
	var all []*oblOutcome
	for _, fr := range results {
		for _, o := range fr.Obls {
			if *prop != "" && !hasProp(o.Props, *prop) && !o.Cover {
				continue // (vacuity covers belong to every property the function is checked under)
			}
			if *onlyObl != "" && o.Name != *onlyObl && !o.Cover {
				continue
			}
			all = append(all, &oblOutcome{O: o, FR: fr})
		}
	}
	var wg sync.WaitGroup
	sem := make(chan struct{}, 6)
	for _, oc := range all {
		wg.Add(1)
		go func(oc *oblOutcome) {
			defer wg.Done()
			sem <- struct{}{}
			defer func() { <-sem }()
			if oc.FR.Unbound != "" {
				oc.R = SolveResult{Status: "unbound", Raw: map[string]string{"vcgen": oc.FR.Unbound}}
				return
			}
			q := oc.FR.Builder.scriptFor(oc.O.Pos, oc.O.Group)
			if oc.O.Cover {
				q += "(assert " + not(oc.O.Goal) + ")\n"
				ct := timeout
				if ct > 5 {
					ct = 5
				}
				oc.R = solve(*prop+"_"+oc.O.Name, q, nil, ct, true, false)
				// vacuity is an *unsat* answer (contradictory assumptions / no
				// returning path). "unknown" (quantified assumptions) is
				// inconclusive and recorded as such, not as a failure.
				oc.OK = oc.R.Status != "unsat"
				oc.Inconclusive = oc.R.Status != "sat"
			} else {
				// Fold-free attempt first, for a goal that does not mention a fold in a
				// function that has folds: the same query with every assumption that
				// mentions one (the isum lemmas, the summand definitions, fold-valued
				// invariants) dropped. Dropping assumptions is sound — fewer hypotheses
				// can only prove less — and the quantified fold lemmas are what makes a
				// solver diverge on goals that have nothing to do with them. Only
				// `unsat` counts; any other answer is discarded and the full query runs.
				if !strings.Contains(oc.O.Goal, "isum") && !strings.Contains(oc.O.Goal, "vmap!") && strings.Contains(q, "(isum ") {
					var sb strings.Builder
					for _, l := range strings.Split(q, "\n") {
						if strings.HasPrefix(l, "(assert") && (strings.Contains(l, "isum") || strings.Contains(l, "vmap!")) {
							continue
						}
						sb.WriteString(l)
						sb.WriteString("\n")
					}
					ft := timeout
					if ft > 3 {
						ft = 3
					}
					r := solve(*prop+"_"+oc.O.Name+"_foldfree", sb.String()+"(assert (not "+oc.O.Goal+"))\n", nil, ft, false, false)
					if r.Status == "unsat" {
						r.Solver += " (fold-free)"
						oc.R = r
						oc.OK = true
						return
					}
				}
				q += "(assert (not " + oc.O.Goal + "))\n"
				oc.R = solve(*prop+"_"+oc.O.Name, q, oc.O.Model, timeout, false, *tier == "thorough")
				oc.OK = oc.R.Status == "unsat"
			}
		}(oc)
	}
	wg.Wait()

	// Proof by cases for obligations no solver decided as a whole: when the
	// obligation's state is an ite-merge over control-flow edges (Cases), each
	// edge condition is asserted in turn, plus the residual case "none of them";
	// the obligation is discharged iff every case is unsat. A `sat` case is a
	// counterexample of the obligation itself.
	byCases := 0
	for _, oc := range all {
		if oc.O.Cover || oc.OK || oc.FR.Unbound != "" || len(oc.O.Cases) < 2 || len(oc.O.Cases) > 12 || (oc.R.Status != "unknown" && oc.R.Status != "timeout") {
			continue
		}
		wg.Add(1)
		go func(oc *oblOutcome) {
			defer wg.Done()
			base := oc.FR.Builder.scriptFor(oc.O.Pos, oc.O.Group)
			cases := append([]Term{}, oc.O.Cases...)
			cases = append(cases, not(or(oc.O.Cases...)))
			res := make([]SolveResult, len(cases))
			var cw sync.WaitGroup
			for i, c := range cases {
				cw.Add(1)
				go func(i int, c Term) {
					defer cw.Done()
					sem <- struct{}{}
					defer func() { <-sem }()
					q := base + "(assert " + c + ")\n(assert (not " + oc.O.Goal + "))\n"
					res[i] = solve(fmt.Sprintf("%s_%s_case%d", *prop, oc.O.Name, i), q, oc.O.Model, timeout, false, false)
				}(i, c)
			}
			cw.Wait()
			allUnsat := true
			tot := oc.R.Time
			for _, r := range res {
				tot += r.Time
				if r.Status == "sat" {
					r.Time = tot
					oc.R = r
					return
				}
				if r.Status != "unsat" {
					allUnsat = false
				}
			}
			if allUnsat {
				oc.R = SolveResult{Status: "unsat", Solver: fmt.Sprintf("by-cases(%d)", len(cases)), Time: tot, Raw: oc.R.Raw}
				oc.OK = true
			} else {
				oc.R.Time = tot
			}
		}(oc)
	}
	wg.Wait()
	for _, oc := range all {
		if oc.OK && strings.HasPrefix(oc.R.Solver, "by-cases") {
			byCases++
		}
	}

	// Second round for obligations no solver decided (unknown / timeout, never
	// for a `sat` answer): the same query, three times the per-obligation limit,
	// at most three at a time so that the solvers are not competing with a full
	// first round for the cores. A loaded machine then costs time, not a false
	// alarm; an obligation that is still undecided is reported as before.
	// VERIF_RETRY=0 turns the round off (the must-fail corpus runs, where an
	// undischarged obligation is the expected outcome).
	retried := 0
	if os.Getenv("VERIF_RETRY") != "0" {
		sem2 := make(chan struct{}, 3)
		for _, oc := range all {
			if oc.O.Cover || oc.OK || oc.FR.Unbound != "" || (oc.R.Status != "unknown" && oc.R.Status != "timeout") {
				continue
			}
			retried++
			wg.Add(1)
			go func(oc *oblOutcome) {
				defer wg.Done()
				sem2 <- struct{}{}
				defer func() { <-sem2 }()
				q := oc.FR.Builder.scriptFor(oc.O.Pos, oc.O.Group) + "(assert (not " + oc.O.Goal + "))\n"
				r := solve(*prop+"_"+oc.O.Name, q, oc.O.Model, 3*timeout, false, false)
				r.Time += oc.R.Time
				if r.Status == "unsat" || r.Status == "sat" {
					oc.R = r
					oc.OK = r.Status == "unsat"
				}
			}(oc)
		}
		wg.Wait()
	}

	// report
	known := loadKnownFindings()
	violations := 0
	discharged := 0
	bySolver := map[string]int{}
	solverTime := 0.0
	var samples []any
	var knownLines []string
	var failed []map[string]any
	covers := 0
	replays := 0
	maxReplays := 3
	if *onlyObl != "" {
		maxReplays = 1000
	}
	coversInconclusive := 0
	proofObls := 0
	for _, oc := range all {
		solverTime += oc.R.Time
		if oc.O.Cover {
			covers++
			if oc.Inconclusive && oc.OK {
				coversInconclusive++
			}
		}
		if oc.OK && oc.O.Cover {
			if *verbose {
				fmt.Printf("cover %-59s %s\n", oc.O.Name, oc.R.Status)
			}
			continue
		}
		if !oc.O.Cover {
			proofObls++
		}
		if oc.OK {
			discharged++
			bySolver[oc.R.Solver]++
			if len(samples) < 6 && !oc.O.Cover {
				samples = append(samples, map[string]any{"obligation": oc.O.Name, "kind": oc.O.Kind, "clause": oc.O.Src, "where": oc.O.Where,
					"solver": oc.R.Solver, "time_s": round3(oc.R.Time), "smt_bytes": len(oc.FR.Builder.scriptFor(oc.O.Pos, oc.O.Group))})
			}
			if *verbose {
				fmt.Printf("ok   %-60s %s %.2fs\n", oc.O.Name, oc.R.Solver, oc.R.Time)
			}
			continue
		}
		// known finding?
		isKnown := false
		for _, k := range known {
			if k.Status == "open" && k.Property == *prop && k.Obligation == oc.O.Name {
				knownLines = append(knownLines, fmt.Sprintf("KNOWN-FINDING: property=%s %s", *prop, k.WhatFails))
				isKnown = true
			}
		}
		if isKnown {
			discharged++ // counted separately below
			continue
		}
		violations++
		// the solver's counterexample, replayed against the real code (at most a
		// few per run: each replay compiles the package's tests)
		suffix := " no-failing-input-found"
		if !oc.O.Cover && oc.R.Status == "sat" && len(oc.R.Model) > 0 {
			if replays < maxReplays {
				replays++
				oc.Replay = tryReplay(l, cs, *prop, oc)
			} else {
				oc.Replay = &ReplayOutcome{Status: "skipped", Reason: fmt.Sprintf("more than %d counterexamples in this run; re-run with `vc replay <file>`", maxReplays)}
			}
			if oc.Replay.Status == "confirmed" {
				suffix = " replayed=confirmed"
			} else {
				suffix = " replayed=" + oc.Replay.Status + suffix
			}
		}
		rp := writeReplay(*prop, oc)
		fmt.Printf("VIOLATION property=%s replay=%s obligation=%s status=%s%s\n", *prop, rp, oc.O.Name, oc.R.Status, suffix)
		frec := map[string]any{"obligation": oc.O.Name, "status": oc.R.Status, "clause": oc.O.Src, "where": oc.O.Where}
		if oc.Replay != nil {
			frec["replay"] = oc.Replay
		}
		failed = append(failed, frec)
	}
	for _, kl := range knownLines {
		fmt.Println(kl)
	}

	// evidence
	var perFunc []map[string]any
	var assumptions []string
	assumeSet := map[string]bool{}
	addAssume := func(s string) {
		if !assumeSet[s] {
			assumeSet[s] = true
			assumptions = append(assumptions, s)
		}
	}
	clauses := 0
	for _, fr := range results {
		perFunc = append(perFunc, map[string]any{
			"function": fr.Name, "instructions_exact": fr.Exact, "instructions_abstracted": fr.Abstracted,
			"callees_by_contract": fr.ByContract, "callees_inlined": fr.Inlined, "callees_abstracted": fr.Havoc,
			"externs": fr.Externs, "loops": fr.Loops, "obligations": len(fr.Obls),
		})
		clauses += fr.Clauses
		for _, n := range fr.Notes {
			addAssume(n)
		}
		for _, x := range fr.ByContract {
			if c := cs.Funcs[x]; c != nil && c.Assumed != "" {
				var ens []string
				for _, en := range c.Ensures {
					ens = append(ens, en.Src)
				}
				addAssume(fmt.Sprintf("in-package contract %s ASSUMED, not verified (%s): ensures [%s] modifies [%s]", x, c.Assumed, strings.Join(ens, "; "), strings.Join(c.Modifies, ", ")))
			}
		}
		for _, x := range fr.Externs {
			c := cs.Funcs[x]
			var ens []string
			for _, en := range c.Ensures {
				ens = append(ens, en.Src)
			}
			addAssume(fmt.Sprintf("extern contract %s assumed: ensures [%s] modifies [%s]", x, strings.Join(ens, "; "), strings.Join(c.Modifies, ", ")))
		}
	}
	// preconditions nobody in this check discharges: a function under contract
	// none of whose call sites is verified under this property has its active
	// preconditions as hypotheses of the property's chain
	calledHere := map[string]bool{}
	for _, oc := range all {
		if i := strings.Index(oc.O.Name, "/requires@"); i >= 0 {
			rest := oc.O.Name[i+len("/requires@"):]
			if j := strings.LastIndex(rest, "#"); j >= 0 {
				calledHere[rest[:j]] = true
			}
		}
	}
	for _, name := range funcsUnder {
		con := cs.Funcs[name]
		if con == nil || calledHere[name] {
			continue
		}
		for _, rq := range con.Requires {
			if clauseActive(rq) {
				addAssume(fmt.Sprintf("precondition of %s is a hypothesis of this check (no call site of it is verified under %s): %s", name, *prop, rq.Src))
			}
		}
	}
	for _, fr := range results {
		if fr.UsesSum {
			addAssume("fold lemmas (isum: empty, one, step, extensionality, non-negativity, concatenation) are PROVED by induction in this run: obligations prelude/isum-*")
			break
		}
	}
	addAssume("integers: SMT Int with explicit two's-complement wrap after +,-,*,conversions (exact)")
	addAssume("append modelled as copying into a fresh backing array")
	addAssume("termination not proved (partial correctness)")
	addAssume("goroutine interleavings not modelled: per-function sequential obligations only")
	addAssume("go/ssa construction and the SSA->SMT encoding rules are trusted (exercised by the must-fail corpus)")
	sort.Strings(assumptions)

	ev := map[string]any{
		"property_id": *prop,
		"tier":        *tier,
		"seed":        seed,
		"level":       "proof",
		"coverage": map[string]any{
			"obligations":                 proofObls,
			"discharged":                  discharged,
			"checker_cmd":                 fmt.Sprintf("bin/vc check -property %s -tier %s (z3 5.1.0 / z3 4.8.12 / cvc5 1.0.3 race, %ds per obligation; undecided obligations get one second round at %ds)", *prop, *tier, timeout, 3*timeout),
			"trusted_base":                []string{"go1.26.8 go/types + x/tools v0.50.0 go/ssa", "vcgen SSA->SMT encoder", "z3 5.1.0", "z3 4.8.12", "cvc5 1.0.3", "extern contracts listed under assumptions"},
			"functions_under_contract":    funcsUnder,
			"contract_clauses_bound":      clauses,
			"per_function":                perFunc,
			"by_solver":                   bySolver,
			"solver_time_s":               round3(solverTime),
			"second_round_obligations":    retried,
			"discharged_by_cases":         byCases,
			"vacuity_covers":              covers,
			"vacuity_covers_inconclusive": coversInconclusive,
			"samples":                     samples,
			"failed":                      failed,
			"known_findings":              knownLines,
		},
		"assumptions": assumptions,
		"wall_s":      round3(time.Since(start).Seconds()),
		"violations":  violations,
	}
	if *prop != "" {
		evDir := os.Getenv("VERIF_EVIDENCE")
		if evDir == "" {
			evDir = "/verif/evidence"
		}
		os.MkdirAll(evDir, 0o755)
		b, _ := json.MarshalIndent(ev, "", " ")
		os.WriteFile(filepath.Join(evDir, *prop+".json"), b, 0o644)
	}
	fmt.Printf("property=%s tier=%s functions=%d obligations=%d discharged=%d violations=%d wall=%.1fs\n",
		*prop, *tier, len(results), proofObls, discharged, violations, time.Since(start).Seconds())
	if violations > 0 {
		os.Exit(1)
	}
}

func round3(f float64) float64 { return float64(int(f*1000+0.5)) / 1000 }

func resolveAnchored(l *Loaded, name string) *ssa.Function {
	i := strings.Index(name, "$closure(")
	if i < 0 || !strings.HasSuffix(name, ")") {
		return nil
	}
	parent := l.Funcs[name[:i]]
	if parent == nil {
		return nil
	}
	return uniqueClosureWith(parent, name[i+len("$closure("):len(name)-1])
}

var curTier = "quick"

// cmdReplay re-decides one recorded obligation on the current tree and replays
// its counterexample: vc replay <replay-file.json>
func cmdReplay(args []string) {
	if len(args) != 1 {
		fmt.Println("usage: vc replay <file.json>")
		os.Exit(2)
	}
	b, err := os.ReadFile(args[0])
	if err != nil {
		fmt.Printf("TOOL-ERROR: %v\n", err)
		os.Exit(2)
	}
	var rec struct {
		Property, Obligation, Function, Tier string
	}
	if err := json.Unmarshal(b, &rec); err != nil || rec.Obligation == "" {
		fmt.Printf("TOOL-ERROR: %s is not a replay record\n", args[0])
		os.Exit(2)
	}
	if rec.Tier == "" {
		rec.Tier = "quick"
	}
	fn := rec.Obligation
	if i := strings.LastIndex(fn, "/"); i > 0 {
		fn = fn[:i]
	}
	// evidence of a replay goes next to the replay files, not over the property's
	os.Setenv("VERIF_EVIDENCE", filepath.Join(outDir(), "replay-evidence"))
	cmdCheck([]string{"-property", rec.Property, "-tier", rec.Tier, "-func", fn, "-obligation", rec.Obligation})
}

func writeReplay(prop string, oc *oblOutcome) string {
	dir := filepath.Join(outDir(), "replay", prop)
	os.MkdirAll(dir, 0o755)
	p := filepath.Join(dir, sanitize(oc.O.Name)+".json")
	rec := map[string]any{
		"property":      prop,
		"obligation":    oc.O.Name,
		"kind":          oc.O.Kind,
		"function":      oc.O.Fn,
		"clause":        oc.O.Src,
		"where":         oc.O.Where,
		"status":        oc.R.Status,
		"solver":        oc.R.Solver,
		"model":         oc.R.Model,
		"replay":        oc.Replay,
		"tier":          curTier,
		"solver_output": oc.R.Raw,
		"smt_file":      oc.R.File,
	}
	b, _ := json.MarshalIndent(rec, "", " ")
	os.WriteFile(p, b, 0o644)
	return p
}
