package main

import (
	"fmt"
	"strings"
	"unicode"
)

// Expr is the AST of a contract expression.
type Expr struct {
	Op   string // ident, int, real, str, bool, nil, un, bin, call, sel, idx, slice, old, forall, exists, ite
	Name string // ident name, operator, field, called function
	Args []*Expr
	// quantifiers
	Var     string
	VarType string
	Lit     string
}

type tok struct {
	kind string // id, num, str, op, eof
	text string
}

func lex(s string) ([]tok, error) {
	var out []tok
	i := 0
	for i < len(s) {
		c := s[i]
		switch {
		case c == ' ' || c == '\t' || c == '\n':
			i++
		case unicode.IsLetter(rune(c)) || c == '_' || c == '$':
			j := i + 1
			for j < len(s) && (unicode.IsLetter(rune(s[j])) || unicode.IsDigit(rune(s[j])) || s[j] == '_' || s[j] == '$') {
				j++
			}
			out = append(out, tok{"id", s[i:j]})
			i = j
		case c >= '0' && c <= '9':
			j := i + 1
			for j < len(s) && (s[j] >= '0' && s[j] <= '9' || s[j] == '.' && j+1 < len(s) && s[j+1] >= '0' && s[j+1] <= '9' || s[j] == 'x' || (s[j] >= 'a' && s[j] <= 'f') || (s[j] >= 'A' && s[j] <= 'F')) {
				j++
			}
			out = append(out, tok{"num", s[i:j]})
			i = j
		case c == '"':
			j := i + 1
			for j < len(s) && s[j] != '"' {
				if s[j] == '\\' {
					j++
				}
				j++
			}
			if j >= len(s) {
				return nil, fmt.Errorf("unterminated string")
			}
			out = append(out, tok{"str", s[i+1 : j]})
			i = j + 1
		default:
			for _, op := range []string{"<==>", "==>", "::", "==", "!=", "<=", ">=", "&&", "||", "<<"} {
				if strings.HasPrefix(s[i:], op) {
					out = append(out, tok{"op", op})
					i += len(op)
					goto next
				}
			}
			if strings.ContainsRune("+-*/%<>!()[].,:?", rune(c)) {
				out = append(out, tok{"op", string(c)})
				i++
				goto next
			}
			return nil, fmt.Errorf("unexpected character %q", c)
		next:
		}
	}
	out = append(out, tok{"eof", ""})
	return out, nil
}

type parser struct {
	toks []tok
	p    int
}

func (p *parser) peek() tok { return p.toks[p.p] }
func (p *parser) peekAt(k int) tok {
	if p.p+k < len(p.toks) {
		return p.toks[p.p+k]
	}
	return p.toks[len(p.toks)-1]
}
func (p *parser) next() tok { t := p.toks[p.p]; p.p++; return t }
func (p *parser) accept(op string) bool {
	if p.peek().kind == "op" && p.peek().text == op {
		p.p++
		return true
	}
	return false
}
func (p *parser) expect(op string) error {
	if !p.accept(op) {
		return fmt.Errorf("expected %q, got %q", op, p.peek().text)
	}
	return nil
}

func parseExpr(s string) (*Expr, error) {
	toks, err := lex(s)
	if err != nil {
		return nil, err
	}
	p := &parser{toks: toks}
	e, err := p.parseTop()
	if err != nil {
		return nil, err
	}
	if p.peek().kind != "eof" {
		return nil, fmt.Errorf("trailing input at %q", p.peek().text)
	}
	return e, nil
}

func (p *parser) parseTop() (*Expr, error) {
	if t := p.peek(); t.kind == "id" && (t.text == "forall" || t.text == "exists" || (t.text == "sum" && p.peekAt(1).kind == "id" && p.peekAt(2).kind == "id" && p.peekAt(2).text == "in")) {
		p.next()
		v := p.next()
		if v.kind != "id" {
			return nil, fmt.Errorf("quantifier variable expected")
		}
		vt := "int"
		var over *Expr
		if p.peek().kind == "id" && p.peek().text == "in" {
			// forall x in s :: P(x) — x ranges over the elements of slice s
			p.next()
			var err error
			over, err = p.parseCond()
			if err != nil {
				return nil, err
			}
			vt = "elem"
		} else if p.peek().kind == "id" {
			vt = p.next().text
		} else if p.peek().kind == "op" && p.peek().text == "*" {
			p.next()
			vt = "*" + p.next().text
		}
		if err := p.expect("::"); err != nil {
			return nil, err
		}
		body, err := p.parseTop()
		if err != nil {
			return nil, err
		}
		q := &Expr{Op: t.text, Var: v.text, VarType: vt, Args: []*Expr{body}}
		if over != nil {
			q.Args = append(q.Args, over)
		}
		return q, nil
	}
	return p.parseIff()
}

func (p *parser) parseIff() (*Expr, error) {
	l, err := p.parseImplies()
	if err != nil {
		return nil, err
	}
	for p.accept("<==>") {
		r, err := p.parseImplies()
		if err != nil {
			return nil, err
		}
		l = &Expr{Op: "bin", Name: "<==>", Args: []*Expr{l, r}}
	}
	return l, nil
}

func (p *parser) parseImplies() (*Expr, error) {
	l, err := p.parseCond()
	if err != nil {
		return nil, err
	}
	if p.accept("==>") {
		// right associative; allow quantifier on the right
		var r *Expr
		if t := p.peek(); t.kind == "id" && (t.text == "forall" || t.text == "exists") {
			r, err = p.parseTop()
		} else {
			r, err = p.parseImplies()
		}
		if err != nil {
			return nil, err
		}
		return &Expr{Op: "bin", Name: "==>", Args: []*Expr{l, r}}, nil
	}
	return l, nil
}

func (p *parser) parseCond() (*Expr, error) {
	c, err := p.parseOr()
	if err != nil {
		return nil, err
	}
	if p.accept("?") {
		a, err := p.parseCond()
		if err != nil {
			return nil, err
		}
		if err := p.expect(":"); err != nil {
			return nil, err
		}
		b, err := p.parseCond()
		if err != nil {
			return nil, err
		}
		return &Expr{Op: "ite", Args: []*Expr{c, a, b}}, nil
	}
	return c, nil
}

func (p *parser) parseOr() (*Expr, error) {
	l, err := p.parseAnd()
	if err != nil {
		return nil, err
	}
	for p.accept("||") {
		r, err := p.parseAnd()
		if err != nil {
			return nil, err
		}
		l = &Expr{Op: "bin", Name: "||", Args: []*Expr{l, r}}
	}
	return l, nil
}

func (p *parser) parseAnd() (*Expr, error) {
	l, err := p.parseCmp()
	if err != nil {
		return nil, err
	}
	for p.accept("&&") {
		r, err := p.parseCmp()
		if err != nil {
			return nil, err
		}
		l = &Expr{Op: "bin", Name: "&&", Args: []*Expr{l, r}}
	}
	return l, nil
}

func (p *parser) parseCmp() (*Expr, error) {
	l, err := p.parseAdd()
	if err != nil {
		return nil, err
	}
	for _, op := range []string{"==", "!=", "<=", ">=", "<", ">"} {
		if p.accept(op) {
			r, err := p.parseAdd()
			if err != nil {
				return nil, err
			}
			return &Expr{Op: "bin", Name: op, Args: []*Expr{l, r}}, nil
		}
	}
	return l, nil
}

func (p *parser) parseAdd() (*Expr, error) {
	l, err := p.parseMul()
	if err != nil {
		return nil, err
	}
	for {
		switch {
		case p.accept("+"):
			r, err := p.parseMul()
			if err != nil {
				return nil, err
			}
			l = &Expr{Op: "bin", Name: "+", Args: []*Expr{l, r}}
		case p.accept("-"):
			r, err := p.parseMul()
			if err != nil {
				return nil, err
			}
			l = &Expr{Op: "bin", Name: "-", Args: []*Expr{l, r}}
		default:
			return l, nil
		}
	}
}

func (p *parser) parseMul() (*Expr, error) {
	l, err := p.parseUnary()
	if err != nil {
		return nil, err
	}
	for {
		switch {
		case p.accept("*"):
			r, err := p.parseUnary()
			if err != nil {
				return nil, err
			}
			l = &Expr{Op: "bin", Name: "*", Args: []*Expr{l, r}}
		case p.accept("/"):
			r, err := p.parseUnary()
			if err != nil {
				return nil, err
			}
			l = &Expr{Op: "bin", Name: "/", Args: []*Expr{l, r}}
		case p.accept("%"):
			r, err := p.parseUnary()
			if err != nil {
				return nil, err
			}
			l = &Expr{Op: "bin", Name: "%", Args: []*Expr{l, r}}
		default:
			return l, nil
		}
	}
}

func (p *parser) parseUnary() (*Expr, error) {
	if t := p.peek(); t.kind == "id" && (t.text == "forall" || t.text == "exists" || (t.text == "sum" && p.peekAt(1).kind == "id" && p.peekAt(2).kind == "id" && p.peekAt(2).text == "in")) {
		return p.parseTop() // a quantifier extends as far to the right as possible
	}
	if p.accept("!") {
		e, err := p.parseUnary()
		if err != nil {
			return nil, err
		}
		return &Expr{Op: "un", Name: "!", Args: []*Expr{e}}, nil
	}
	if p.accept("-") {
		e, err := p.parseUnary()
		if err != nil {
			return nil, err
		}
		return &Expr{Op: "un", Name: "-", Args: []*Expr{e}}, nil
	}
	if p.accept("*") { // explicit dereference
		e, err := p.parseUnary()
		if err != nil {
			return nil, err
		}
		return &Expr{Op: "un", Name: "*", Args: []*Expr{e}}, nil
	}
	return p.parsePostfix()
}

func (p *parser) parsePostfix() (*Expr, error) {
	e, err := p.parsePrimary()
	if err != nil {
		return nil, err
	}
	for {
		switch {
		case p.accept("."):
			t := p.next()
			if t.kind != "id" && t.kind != "num" {
				return nil, fmt.Errorf("field name expected after '.'")
			}
			e = &Expr{Op: "sel", Name: t.text, Args: []*Expr{e}}
		case p.accept("["):
			var lo, hi *Expr
			if !(p.peek().kind == "op" && p.peek().text == ":") {
				lo, err = p.parseCond()
				if err != nil {
					return nil, err
				}
			}
			if p.accept(":") {
				if !(p.peek().kind == "op" && p.peek().text == "]") {
					hi, err = p.parseCond()
					if err != nil {
						return nil, err
					}
				}
				if err := p.expect("]"); err != nil {
					return nil, err
				}
				e = &Expr{Op: "slice", Args: []*Expr{e, lo, hi}}
			} else {
				if err := p.expect("]"); err != nil {
					return nil, err
				}
				e = &Expr{Op: "idx", Args: []*Expr{e, lo}}
			}
		case p.peek().kind == "op" && p.peek().text == "(" && e.Op == "ident":
			p.next()
			var args []*Expr
			if !p.accept(")") {
				for {
					a, err := p.parseTop()
					if err != nil {
						return nil, err
					}
					args = append(args, a)
					if p.accept(")") {
						break
					}
					if err := p.expect(","); err != nil {
						return nil, err
					}
				}
			}
			if e.Name == "old" {
				if len(args) != 1 {
					return nil, fmt.Errorf("old takes one argument")
				}
				e = &Expr{Op: "old", Args: args}
			} else {
				e = &Expr{Op: "call", Name: e.Name, Args: args}
			}
		default:
			return e, nil
		}
	}
}

func (p *parser) parsePrimary() (*Expr, error) {
	t := p.next()
	switch t.kind {
	case "num":
		if strings.Contains(t.text, ".") {
			return &Expr{Op: "real", Lit: t.text}, nil
		}
		return &Expr{Op: "int", Lit: t.text}, nil
	case "str":
		return &Expr{Op: "str", Lit: t.text}, nil
	case "id":
		switch t.text {
		case "true", "false":
			return &Expr{Op: "bool", Lit: t.text}, nil
		case "nil":
			return &Expr{Op: "nil"}, nil
		}
		return &Expr{Op: "ident", Name: t.text}, nil
	case "op":
		if t.text == "(" {
			e, err := p.parseTop()
			if err != nil {
				return nil, err
			}
			if err := p.expect(")"); err != nil {
				return nil, err
			}
			return e, nil
		}
	}
	return nil, fmt.Errorf("unexpected token %q", t.text)
}

func (e *Expr) String() string {
	if e == nil {
		return "<nil>"
	}
	switch e.Op {
	case "ident":
		return e.Name
	case "int", "real", "bool":
		return e.Lit
	case "str":
		return fmt.Sprintf("%q", e.Lit)
	case "nil":
		return "nil"
	case "un":
		return e.Name + e.Args[0].String()
	case "bin":
		return "(" + e.Args[0].String() + " " + e.Name + " " + e.Args[1].String() + ")"
	case "sel":
		return e.Args[0].String() + "." + e.Name
	case "idx":
		return e.Args[0].String() + "[" + e.Args[1].String() + "]"
	case "old":
		return "old(" + e.Args[0].String() + ")"
	case "call":
		var as []string
		for _, a := range e.Args {
			as = append(as, a.String())
		}
		return e.Name + "(" + strings.Join(as, ", ") + ")"
	case "forall", "exists", "sum":
		return e.Op + " " + e.Var + " :: " + e.Args[0].String()
	case "ite":
		return "(" + e.Args[0].String() + " ? " + e.Args[1].String() + " : " + e.Args[2].String() + ")"
	}
	return e.Op
}
