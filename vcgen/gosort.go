package main

import "go/types"

// specSortOf resolves a type named in a specfun / quantifier: one of the
// specification sorts (int, real, bool, str, ptr, iface, flt, ghost maps) or,
// failing that, a Go type of the program (e.g. "reflect.Value", "MinMaxIndex").
func (e *Enc) specSortOf(t string) (string, types.Type) {
	if s, typ := specSort(t); s != "" {
		return s, typ
	}
	if gt := e.lookupType(t); gt != nil {
		return e.B.sortOf(gt), gt
	}
	return "", nil
}
