package main

// Spare-capacity ownership of append.
//
// The encoder models append as copying into a fresh backing array. The real
// append writes *in place* when the capacity suffices; the two agree for every
// observer exactly when nobody else can see (or also append into) the spare
// capacity that is written. That is checked instead of assumed:
//
//   - syntactically owned: the first operand derives, through phis, reslicing
//     and earlier appends, only from make/nil/composite literals of this
//     function (its backing array was allocated here), from a map this
//     function made and fills only with owned slices, or from a slice
//     parameter the contract declares append-owned (`appends dst`);
//   - otherwise an obligation "append-shared" is generated: at the append the
//     slice is nil, or its array was allocated by this function, or the
//     capacity forces a reallocation, or the slice was loaded from a place the
//     contract declares the owner of its spare capacity (`appends r.errs`,
//     `appends *doneChans`, `appends local.Field`: places, compared by address;
//     each is listed as an assumption in the evidence).
//
// A change that makes a function append into a slice it merely holds a copy of
// the header of (two holders of the same spare capacity) fails this obligation.

import (
	"go/token"
	"go/types"
	"strings"

	"golang.org/x/tools/go/ssa"
)

func sliceOwned(v ssa.Value, seen map[ssa.Value]bool, roots map[ssa.Value]bool) bool {
	if roots[v] {
		return true
	}
	if seen[v] {
		return true // coinductive over phi cycles
	}
	seen[v] = true
	switch t := v.(type) {
	case *ssa.MakeSlice:
		return true
	case *ssa.Const:
		return t.Value == nil
	case *ssa.Slice:
		// reslicing a local array (composite literal / new) or an owned slice
		if _, isPtr := t.X.Type().Underlying().(*types.Pointer); isPtr {
			_, isAlloc := t.X.(*ssa.Alloc)
			return isAlloc
		}
		if _, isSlice := t.X.Type().Underlying().(*types.Slice); isSlice {
			return sliceOwned(t.X, seen, roots)
		}
		return false
	case *ssa.Phi:
		for _, ed := range t.Edges {
			if !sliceOwned(ed, seen, roots) {
				return false
			}
		}
		return true
	case *ssa.Call:
		if b, ok := t.Call.Value.(*ssa.Builtin); ok && b.Name() == "append" {
			return sliceOwned(t.Call.Args[0], seen, roots)
		}
		// the standard library's append-style helpers (utf8.AppendRune,
		// binary.AppendUvarint, strconv.AppendInt, ...) return their first
		// argument extended, exactly like append: ownership follows it
		if f := t.Call.StaticCallee(); f != nil && f.Pkg != nil && len(t.Call.Args) > 0 && strings.HasPrefix(f.Name(), "Append") {
			switch f.Pkg.Pkg.Path() {
			case "unicode/utf8", "encoding/binary", "strconv":
				if _, isSlice := t.Call.Args[0].Type().Underlying().(*types.Slice); isSlice {
					return sliceOwned(t.Call.Args[0], seen, roots)
				}
			}
		}
		return false
	case *ssa.ChangeType:
		return sliceOwned(t.X, seen, roots)
	case *ssa.Lookup:
		// element of a map made here and only ever filled with owned slices
		mk, ok := t.X.(*ssa.MakeMap)
		if !ok || t.CommaOk {
			return false
		}
		for _, ref := range *mk.Referrers() {
			switch r := ref.(type) {
			case *ssa.MapUpdate:
				if r.Map != mk || !sliceOwned(r.Value, seen, roots) {
					return false
				}
			case *ssa.Lookup, *ssa.Range, *ssa.DebugRef:
			case *ssa.Call:
				// len(m), delete(m, k)
				if _, isB := r.Call.Value.(*ssa.Builtin); !isB {
					return false
				}
			default:
				return false
			}
		}
		return true
	}
	return false
}

func placeEq(a, b *Place) Term {
	if a == nil || b == nil || a.Kind != b.Kind {
		return "false"
	}
	switch a.Kind {
	case PDeref:
		if a.Typ != nil && b.Typ != nil && !types.Identical(a.Typ, b.Typ) {
			return "false"
		}
		return "(= " + a.Ptr + " " + b.Ptr + ")"
	case PField:
		if a.Field != b.Field {
			return "false"
		}
		return placeEq(a.Base, b.Base)
	case PIndex:
		return and("(= "+a.Idx+" "+b.Idx+")", placeEq(a.Base, b.Base))
	}
	return "false"
}

// appendOwnership emits the append-shared obligation when the operand is not
// syntactically owned.
func (e *Enc) appendOwnership(fr *Frame, common *ssa.CallCommon, s Val, newLen Term, st *State, reach Term) {
	root := fr
	for root.parent != nil {
		root = root.parent
	}
	roots := map[ssa.Value]bool{}
	var places []*Clause
	if e.con != nil {
		for _, ap := range e.con.Appends {
			if ap.Expr != nil && ap.Expr.Op == "ident" {
				// a slice parameter the function appends to by contract
				isParam := false
				for _, p := range root.fn.Params {
					if p.Name() == ap.Expr.Name {
						isParam = true
						if _, ok := p.Type().Underlying().(*types.Slice); ok && fr == root {
							roots[p] = true
						}
					}
				}
				if isParam {
					continue
				}
				// otherwise a local variable held in a cell (captured by a closure):
				// the cell is the place
			}
			places = append(places, ap)
		}
	}
	op := common.Args[0]
	if sliceOwned(op, map[ssa.Value]bool{}, roots) {
		return
	}
	// a local variable kept in a cell (it is captured by a closure) that only ever
	// holds reslices of a declared place's slice and appends to itself: the
	// spare capacity written is the declared place's
	if ld, ok := op.(*ssa.UnOp); ok && ld.Op == token.MUL {
		if al, ok := ld.X.(*ssa.Alloc); ok && len(places) > 0 && cellHoldsPlace(al, places) {
			e.note("append into local %s: holds only reslices of a declared append place", al.Comment)
			return
		}
	}
	e.B.declTop("alloc@entry", "(declare-const alloc@entry Int)\n(assert (<= alloc@entry 0))")
	alts := []Term{
		"(= (sarr " + s.T + ") 0)",
		"(< (sarr " + s.T + ") alloc@entry)",
		"(> " + newLen + " (scap " + s.T + "))",
	}
	// a reslice of the place's slice (s.buf[:0]) shares the place's backing array
	base := op
	for {
		sl, ok := base.(*ssa.Slice)
		if !ok {
			break
		}
		if _, isSlice := sl.X.Type().Underlying().(*types.Slice); !isSlice {
			break
		}
		base = sl.X
	}
	if ld, ok := base.(*ssa.UnOp); ok && ld.Op == token.MUL && len(places) > 0 {
		from := e.placeOf(e.val(fr, ld.X), ld.Type())
		ctx := e.frameCtx(root, st, root.curBlock, root.curIdx, nil)
		ctx.what = "appends of " + contractName(e.top)
		for _, ap := range places {
			ce := e.compile(ctx, ap.Expr)
			if ce.P == nil {
				fail("appends %s: not a place (field, dereference or slice parameter)", ap.Src)
			}
			if eq := placeEq(from, ce.P); eq != "false" {
				alts = append(alts, eq)
			}
		}
	}
	e.addObl(fr, "append-shared", implies(reach, or(alts...)),
		"append writes into spare capacity only of an array this function allocated or of a place declared (appends) to own it", common.Pos(), nil)
}

// cellHoldsPlace: every value stored into the local cell is an append to the
// cell's own content, or a reslice of a slice loaded from a field whose name is
// the last selector of a declared append place.
func cellHoldsPlace(al *ssa.Alloc, places []*Clause) bool {
	fields := map[string]bool{}
	for _, ap := range places {
		if ap.Expr != nil && ap.Expr.Op == "sel" {
			fields[ap.Expr.Name] = true
		}
	}
	if len(fields) == 0 {
		return false
	}
	fromPlace := func(v ssa.Value) bool {
		for {
			sl, ok := v.(*ssa.Slice)
			if !ok {
				break
			}
			v = sl.X
		}
		ld, ok := v.(*ssa.UnOp)
		if !ok || ld.Op != token.MUL {
			return false
		}
		fa, ok := ld.X.(*ssa.FieldAddr)
		if !ok {
			return false
		}
		st, ok := fa.X.Type().Underlying().(*types.Pointer).Elem().Underlying().(*types.Struct)
		return ok && fields[st.Field(fa.Field).Name()]
	}
	for _, ref := range *al.Referrers() {
		st, ok := ref.(*ssa.Store)
		if !ok || st.Addr != al {
			continue
		}
		if call, ok := st.Val.(*ssa.Call); ok {
			if b, ok := call.Call.Value.(*ssa.Builtin); ok && b.Name() == "append" {
				if ld, ok := call.Call.Args[0].(*ssa.UnOp); ok && ld.Op == token.MUL && ld.X == al {
					continue
				}
			}
		}
		if fromPlace(st.Val) {
			continue
		}
		return false
	}
	return true
}
