package main

import (
	"go/token"
	"strings"

	"golang.org/x/tools/go/ssa"
)

// ghostEffects computes, by a transitive walk over the static call graph, the
// set of ghost state keys a function may modify:
//
//   - built-in event counters at every send / select / receive / close
//     instruction;
//   - whatever the contracts of its callees (in-package, extern, interface
//     method) name in their modifies / entry clauses.
//
// It justifies "ghost state unchanged" for in-package helpers that have no
// contract and cannot be inlined. Calls through function values (user
// callbacks, closures passed in) and interface methods without an extern
// contract are assumed not to touch tracked state; that assumption is listed
// in the evidence.
func (e *Enc) ghostEffects(root *ssa.Function) map[string]bool {
	if fx, ok := ghostFxCache[root]; ok {
		return fx
	}
	fx := map[string]bool{}
	add := func(con *Contract) {
		for _, t := range con.Modifies {
			if t == "all" {
				fx["*"] = true
			}
			if strings.HasPrefix(t, "ghost.") {
				fx[t] = true
			}
		}
		for _, eg := range con.Entry {
			fx["ghost."+eg.Name] = true
		}
	}
	seen := map[*ssa.Function]bool{root: true}
	work := []*ssa.Function{root}
	push := func(f *ssa.Function) {
		if f != nil && !seen[f] {
			seen[f] = true
			work = append(work, f)
		}
	}
	for len(work) > 0 {
		fn := work[len(work)-1]
		work = work[:len(work)-1]
		for _, b := range fn.Blocks {
			for _, ins := range b.Instrs {
				switch t := ins.(type) {
				case *ssa.Send:
					fx["ghost.sends"] = true
					fx["ghost.nilsends"] = true
				case *ssa.Select:
					fx["ghost.sends"] = true
					fx["ghost.nilsends"] = true
					fx["ghost.recvs"] = true
				case *ssa.UnOp:
					if t.Op == token.ARROW {
						fx["ghost.recvs"] = true
					}
				case *ssa.MakeClosure:
					push(t.Fn.(*ssa.Function))
				case ssa.CallInstruction:
					cc := t.Common()
					if bi, ok := cc.Value.(*ssa.Builtin); ok {
						if bi.Name() == "close" {
							fx["ghost.closes"] = true
						}
						continue
					}
					ct := e.classify(cc, nil)
					switch {
					case ct.con != nil:
						add(ct.con)
					case ct.fn != nil && len(ct.fn.Blocks) > 0 && e.inPackage(ct.fn):
						push(ct.fn)
					}
				}
			}
		}
	}
	ghostFxCache[root] = fx
	return fx
}

var ghostFxCache = map[*ssa.Function]map[string]bool{}

// localEscapes reports whether the address of a local cell can reach code
// outside the function body: passed to a call, stored, sent, returned, put in an
// interface, merged by a phi, or captured by a closure that is itself passed on.
// Cells that do not escape cannot be written by a callee, whatever its frame
// says, so their contents survive a "modifies heaps" havoc.
func localEscapes(a *ssa.Alloc) bool {
	if v, ok := escapeCache[a]; ok {
		return v
	}
	escapeCache[a] = true // cycle guard
	r := addrEscapes(a, 0)
	escapeCache[a] = r
	return r
}

var escapeCache = map[*ssa.Alloc]bool{}

func addrEscapes(v ssa.Value, depth int) bool {
	if depth > 8 {
		return true
	}
	refs := v.Referrers()
	if refs == nil {
		return true
	}
	for _, ins := range *refs {
		switch t := ins.(type) {
		case *ssa.DebugRef:
		case *ssa.UnOp: // load
		case *ssa.Store:
			if t.Val == v {
				return true
			}
		case *ssa.FieldAddr:
			if addrEscapes(t, depth+1) {
				return true
			}
		case *ssa.IndexAddr:
			if addrEscapes(t, depth+1) {
				return true
			}
		case *ssa.MakeClosure:
			// captured: escapes only if the closure value goes anywhere but a
			// direct call or a defer
			if closureEscapes(t) {
				return true
			}
		default:
			return true
		}
	}
	return false
}

func closureEscapes(mc *ssa.MakeClosure) bool {
	refs := mc.Referrers()
	if refs == nil {
		return true
	}
	for _, ins := range *refs {
		switch t := ins.(type) {
		case *ssa.DebugRef:
		case *ssa.Defer:
			if t.Call.Value != mc {
				return true
			}
		case *ssa.Call:
			if t.Call.Value != mc {
				return true
			}
		default:
			return true
		}
	}
	return false
}

// storedIn reports whether some store in the given blocks writes through an
// address derived from a.
func storedIn(a *ssa.Alloc, blocks map[*ssa.BasicBlock]bool) bool {
	var derived func(v ssa.Value, depth int) bool
	derived = func(v ssa.Value, depth int) bool {
		if depth > 8 {
			return true
		}
		refs := v.Referrers()
		if refs == nil {
			return false
		}
		for _, ins := range *refs {
			switch t := ins.(type) {
			case *ssa.Store:
				if t.Addr == v && blocks[t.Block()] {
					return true
				}
			case *ssa.FieldAddr:
				if derived(t, depth+1) {
					return true
				}
			case *ssa.IndexAddr:
				if derived(t, depth+1) {
					return true
				}
			case *ssa.MakeClosure:
				// a directly called / deferred closure may write the captured cell
				fn := t.Fn.(*ssa.Function)
				for i, b := range t.Bindings {
					if b == v && i < len(fn.FreeVars) {
						if anyStoreThrough(fn.FreeVars[i], 0) {
							return true
						}
					}
				}
			}
		}
		return false
	}
	return derived(a, 0)
}

func anyStoreThrough(v ssa.Value, depth int) bool {
	if depth > 8 {
		return true
	}
	refs := v.Referrers()
	if refs == nil {
		return false
	}
	for _, ins := range *refs {
		switch t := ins.(type) {
		case *ssa.Store:
			if t.Addr == v {
				return true
			}
		case *ssa.FieldAddr:
			if anyStoreThrough(t, depth+1) {
				return true
			}
		case *ssa.IndexAddr:
			if anyStoreThrough(t, depth+1) {
				return true
			}
		case *ssa.UnOp, *ssa.DebugRef:
		default:
			return true
		}
	}
	return false
}
