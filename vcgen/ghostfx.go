package main

import (
	"go/token"
	"strings"

	"golang.org/x/tools/go/ssa"
)

// ghostEffects computes, by a transitive walk over the static call graph, the
// set of ghost state keys a function may modify:
//
//   - built-in event counters at every send / select / receive / close
//     instruction;
//   - whatever the contracts of its callees (in-package, extern, interface
//     method) name in their modifies / entry clauses.
//
// It justifies "ghost state unchanged" for in-package helpers that have no
// contract and cannot be inlined. Calls through function values (user
// callbacks, closures passed in) and interface methods without an extern
// contract are assumed not to touch tracked state; that assumption is listed
// in the evidence.
func (e *Enc) ghostEffects(root *ssa.Function) map[string]bool {
	if fx, ok := ghostFxCache[root]; ok {
		return fx
	}
	fx := map[string]bool{}
	add := func(con *Contract) {
		for _, t := range con.Modifies {
			if t == "all" {
				fx["*"] = true
			}
			if strings.HasPrefix(t, "ghost.") {
				fx[t] = true
			}
		}
		for _, eg := range con.Entry {
			fx["ghost."+eg.Name] = true
		}
	}
	seen := map[*ssa.Function]bool{root: true}
	work := []*ssa.Function{root}
	push := func(f *ssa.Function) {
		if f != nil && !seen[f] {
			seen[f] = true
			work = append(work, f)
		}
	}
	for len(work) > 0 {
		fn := work[len(work)-1]
		work = work[:len(work)-1]
		for _, b := range fn.Blocks {
			for _, ins := range b.Instrs {
				switch t := ins.(type) {
				case *ssa.Send:
					fx["ghost.sends"] = true
					fx["ghost.nilsends"] = true
				case *ssa.Select:
					fx["ghost.sends"] = true
					fx["ghost.nilsends"] = true
					fx["ghost.recvs"] = true
				case *ssa.UnOp:
					if t.Op == token.ARROW {
						fx["ghost.recvs"] = true
					}
				case *ssa.MakeClosure:
					push(t.Fn.(*ssa.Function))
				case ssa.CallInstruction:
					cc := t.Common()
					if bi, ok := cc.Value.(*ssa.Builtin); ok {
						if bi.Name() == "close" {
							fx["ghost.closes"] = true
						}
						continue
					}
					ct := e.classify(cc, nil)
					switch {
					case ct.con != nil:
						add(ct.con)
					case ct.fn != nil && len(ct.fn.Blocks) > 0 && e.inPackage(ct.fn):
						push(ct.fn)
					}
				}
			}
		}
	}
	ghostFxCache[root] = fx
	return fx
}

var ghostFxCache = map[*ssa.Function]map[string]bool{}
