package main

import (
	"fmt"
	"go/types"
	"math/big"
	"sort"
	"strings"
)

// Term is an SMT-LIB term in concrete syntax.
type Term = string

// Builder accumulates one function's verification script.
//
//	top   – sort declarations, entry heaps, uninterpreted symbols, literals:
//	        always part of every query.
//	lines – positional: definitions of SSA values / heap versions and the
//	        assumptions (callee ensures, loop invariants, well-formedness) in
//	        program (topological) order. An obligation created at position p
//	        is checked against lines[0:p] only (passive-form soundness: a
//	        later assumption never helps an earlier obligation).
type Builder struct {
	top          []string
	lines        []string
	sorts        map[string]bool // declared struct sorts
	declared     map[string]bool // declared top-level symbols
	strLits      map[string]string
	strOrder     []string
	typeIDs      map[string]int
	typeList     []types.Type
	fresh        int
	needStrOrder bool
	heapElem     map[string]types.Type
}

func newBuilder() *Builder {
	b := &Builder{sorts: map[string]bool{}, declared: map[string]bool{}, strLits: map[string]string{}, typeIDs: map[string]int{}}
	b.top = append(b.top, preludeCore)
	return b
}

const preludeCore = `
(declare-datatype Ptr ((mkptr (pref Int) (pidx Int))))
(declare-datatype Slice ((mkslice (sarr Int) (soff Int) (slen Int) (scap Int))))
(declare-datatype Iface ((mkiface (ity Int) (ival Int))))
(declare-datatype Flt ((fin (fval Real)) (pinf) (ninf) (fnan)))
(declare-sort Str 0)
(declare-fun strlen (Str) Int)
(declare-fun strlt (Str Str) Bool)
(declare-const emptystr Str)
(assert (= (strlen emptystr) 0))
(define-fun nilptr () Ptr (mkptr 0 0))
(define-fun nilslice () Slice (mkslice 0 0 0 0))
(define-fun niliface () Iface (mkiface 0 0))
(define-fun wrap64 ((x Int)) Int (ite (> x 9223372036854775807) (- x 18446744073709551616) (ite (< x (- 9223372036854775808)) (+ x 18446744073709551616) x)))
(define-fun wrap32 ((x Int)) Int (ite (> x 2147483647) (- x 4294967296) (ite (< x (- 2147483648)) (+ x 4294967296) x)))
(define-fun wrapu64 ((x Int)) Int (ite (> x 18446744073709551615) (- x 18446744073709551616) (ite (< x 0) (+ x 18446744073709551616) x)))
(define-fun wrapu32 ((x Int)) Int (ite (> x 4294967295) (- x 4294967296) (ite (< x 0) (+ x 4294967296) x)))
(define-fun modwrap ((x Int) (lo Int) (m Int)) Int (+ (mod (- x lo) m) lo))
(define-fun imin ((a Int) (b Int)) Int (ite (<= a b) a b))
(define-fun imax ((a Int) (b Int)) Int (ite (>= a b) a b))
(define-fun clampZ ((x Int)) Int (ite (> x 9223372036854775807) 9223372036854775807 (ite (< x (- 9223372036854775808)) (- 9223372036854775808) x)))
(define-fun rfloor ((x Real)) Int (to_int x))
(define-fun rceil ((x Real)) Int (- (to_int (- x))))
(define-fun fltlt ((a Flt) (b Flt)) Bool (and (not ((_ is fnan) a)) (not ((_ is fnan) b)) (not (= a b)) (or ((_ is ninf) a) ((_ is pinf) b) (and ((_ is fin) a) ((_ is fin) b) (< (fval a) (fval b))))))
(define-fun fltle ((a Flt) (b Flt)) Bool (and (not ((_ is fnan) a)) (not ((_ is fnan) b)) (or (= a b) (fltlt a b))))
`

func (b *Builder) freshName(prefix string) string {
	b.fresh++
	return fmt.Sprintf("%s!%d", prefix, b.fresh)
}

func (b *Builder) declTop(name, decl string) {
	if b.declared[name] {
		return
	}
	b.declared[name] = true
	b.top = append(b.top, decl)
}

func (b *Builder) emit(line string) { b.lines = append(b.lines, line) }
func (b *Builder) pos() int         { return len(b.lines) }

// define introduces a named term at the current position and returns the name.
func (b *Builder) define(prefix, sort string, t Term) Term {
	// keep short atoms as they are
	if len(t) < 24 && !strings.ContainsAny(t, " ") {
		return t
	}
	n := b.freshName(prefix)
	b.emit(fmt.Sprintf("(define-fun %s () %s %s)", n, sort, t))
	return n
}

func (b *Builder) declConst(prefix, sort string) Term {
	n := b.freshName(prefix)
	b.emit(fmt.Sprintf("(declare-const %s %s)", n, sort))
	return n
}

func (b *Builder) assume(t Term) {
	if t == "true" {
		return
	}
	b.emit("(assert " + t + ")")
}

// assumeG: an assumption that belongs to a proof group (an SMT comment marks the
// line; scriptFor leaves it out for obligations of another group).
func (b *Builder) assumeG(t Term, group string) {
	if t == "true" {
		return
	}
	if group == "" {
		b.emit("(assert " + t + ")")
		return
	}
	b.emit("(assert " + t + ") ;grp:" + group)
}

// scriptFor is script for an obligation of the given proof group: assumptions
// marked with another group are left out.
func (b *Builder) scriptFor(p int, group string) string {
	if group == "" {
		return b.script(p)
	}
	var sb strings.Builder
	sb.WriteString(strings.Join(b.top, "\n"))
	sb.WriteString("\n")
	sb.WriteString(b.strDecls())
	for _, l := range b.lines[:p] {
		if i := strings.LastIndex(l, " ;grp:"); i >= 0 && l[i+6:] != group {
			continue
		}
		sb.WriteString(l)
		sb.WriteString("\n")
	}
	return sb.String()
}

// ---- integer helpers ----

func intLit(v *big.Int) Term {
	if v.Sign() < 0 {
		return "(- " + new(big.Int).Neg(v).String() + ")"
	}
	return v.String()
}

func ilit(v int64) Term { return intLit(big.NewInt(v)) }

type intInfo struct {
	bits   int
	signed bool
}

func intInfoOf(t types.Type) (intInfo, bool) {
	bt, ok := t.Underlying().(*types.Basic)
	if !ok {
		return intInfo{}, false
	}
	switch bt.Kind() {
	case types.Int, types.Int64, types.UntypedInt:
		return intInfo{64, true}, true
	case types.Int32, types.UntypedRune:
		return intInfo{32, true}, true
	case types.Int16:
		return intInfo{16, true}, true
	case types.Int8:
		return intInfo{8, true}, true
	case types.Uint, types.Uint64, types.Uintptr:
		return intInfo{64, false}, true
	case types.Uint32:
		return intInfo{32, false}, true
	case types.Uint16:
		return intInfo{16, false}, true
	case types.Uint8:
		return intInfo{8, false}, true
	}
	return intInfo{}, false
}

func (ii intInfo) lo() *big.Int {
	if !ii.signed {
		return big.NewInt(0)
	}
	return new(big.Int).Neg(new(big.Int).Lsh(big.NewInt(1), uint(ii.bits-1)))
}
func (ii intInfo) hi() *big.Int {
	if !ii.signed {
		return new(big.Int).Sub(new(big.Int).Lsh(big.NewInt(1), uint(ii.bits)), big.NewInt(1))
	}
	return new(big.Int).Sub(new(big.Int).Lsh(big.NewInt(1), uint(ii.bits-1)), big.NewInt(1))
}
func (ii intInfo) modulus() *big.Int { return new(big.Int).Lsh(big.NewInt(1), uint(ii.bits)) }

// wrap1 wraps a value known to be at most one modulus out of range
// (result of one add/sub of in-range operands).
func (ii intInfo) wrap1(t Term) Term {
	switch {
	case ii.bits == 64 && ii.signed:
		return "(wrap64 " + t + ")"
	case ii.bits == 32 && ii.signed:
		return "(wrap32 " + t + ")"
	case ii.bits == 64 && !ii.signed:
		return "(wrapu64 " + t + ")"
	case ii.bits == 32 && !ii.signed:
		return "(wrapu32 " + t + ")"
	}
	return ii.wrapAny(t)
}

// wrapAny wraps an arbitrary integer into the type's range (exact, uses mod).
func (ii intInfo) wrapAny(t Term) Term {
	return fmt.Sprintf("(modwrap %s %s %s)", t, intLit(ii.lo()), intLit(ii.modulus()))
}

func (ii intInfo) inRange(t Term) Term {
	return fmt.Sprintf("(and (<= %s %s) (<= %s %s))", intLit(ii.lo()), t, t, intLit(ii.hi()))
}

// ---- sorts ----

func sanitize(s string) string {
	var sb strings.Builder
	for _, r := range s {
		switch {
		case r >= 'a' && r <= 'z', r >= 'A' && r <= 'Z', r >= '0' && r <= '9', r == '_':
			sb.WriteRune(r)
		default:
			sb.WriteRune('_')
		}
	}
	return sb.String()
}

func shortTypeName(t types.Type) string {
	s := types.TypeString(t, func(p *types.Package) string {
		if p.Path() == "github.com/danthegoodman1/bloomsearch" {
			return ""
		}
		return p.Path()
	})
	return s
}

// sortOf maps a Go type to its SMT sort, declaring struct datatypes on demand.
func (b *Builder) sortOf(t types.Type) string {
	switch u := t.Underlying().(type) {
	case *types.Basic:
		switch {
		case u.Info()&types.IsBoolean != 0:
			return "Bool"
		case u.Info()&types.IsInteger != 0:
			return "Int"
		case u.Info()&types.IsString != 0:
			return "Str"
		case u.Kind() == types.UntypedFloat:
			return "Real" // specification reals
		case u.Info()&types.IsFloat != 0:
			return "Flt"
		case u.Kind() == types.UnsafePointer:
			return "Int"
		case u.Kind() == types.UntypedNil:
			return "Int"
		}
		return "Int"
	case *types.Pointer:
		return "Ptr"
	case *types.Slice:
		return "Slice"
	case *types.Map, *types.Chan, *types.Signature:
		return "Int"
	case *types.Interface:
		return "Iface"
	case *types.Array:
		return "(Array Int " + b.sortOf(u.Elem()) + ")"
	case *types.Struct:
		return b.structSort(t, u)
	case *types.Tuple:
		return "TUPLE"
	case *types.TypeParam:
		return "Iface"
	}
	return "Int"
}

func (b *Builder) structSortName(t types.Type) string {
	if _, ok := t.(*types.Named); ok {
		return "S_" + sanitize(shortTypeName(t))
	}
	if a, ok := t.(*types.Alias); ok {
		return b.structSortName(types.Unalias(a))
	}
	return "S_anon_" + sanitize(shortTypeName(t))
}

func fieldAcc(sortName string, st *types.Struct, i int) string {
	n := st.Field(i).Name()
	if n == "_" || n == "" {
		n = fmt.Sprintf("f%d", i)
	}
	return sortName + "." + n
}

func (b *Builder) structSort(t types.Type, st *types.Struct) string {
	name := b.structSortName(t)
	if b.sorts[name] {
		return name
	}
	b.sorts[name] = true
	var fields []string
	for i := 0; i < st.NumFields(); i++ {
		fs := b.sortOf(st.Field(i).Type()) // declares dependencies first
		fields = append(fields, fmt.Sprintf("(%s %s)", fieldAcc(name, st, i), fs))
	}
	if len(fields) == 0 {
		b.top = append(b.top, fmt.Sprintf("(declare-datatype %s ((mk.%s)))", name, name))
	} else {
		b.top = append(b.top, fmt.Sprintf("(declare-datatype %s ((mk.%s %s)))", name, name, strings.Join(fields, " ")))
	}
	return name
}

// structUpdate builds the struct value v with field i replaced by nv.
func (b *Builder) structUpdate(t types.Type, v Term, i int, nv Term) Term {
	st := t.Underlying().(*types.Struct)
	name := b.sortOf(t)
	var parts []string
	for k := 0; k < st.NumFields(); k++ {
		if k == i {
			parts = append(parts, nv)
		} else {
			parts = append(parts, fmt.Sprintf("(%s %s)", fieldAcc(name, st, k), v))
		}
	}
	return fmt.Sprintf("(mk.%s %s)", name, strings.Join(parts, " "))
}

func (b *Builder) structField(t types.Type, v Term, i int) Term {
	st := t.Underlying().(*types.Struct)
	name := b.sortOf(t)
	return fmt.Sprintf("(%s %s)", fieldAcc(name, st, i), v)
}

func (b *Builder) mkStruct(t types.Type, fields []Term) Term {
	name := b.sortOf(t)
	if len(fields) == 0 {
		return "mk." + name
	}
	return fmt.Sprintf("(mk.%s %s)", name, strings.Join(fields, " "))
}

// zeroOf is the Go zero value of t.
func (b *Builder) zeroOf(t types.Type) Term {
	switch u := t.Underlying().(type) {
	case *types.Basic:
		switch {
		case u.Info()&types.IsBoolean != 0:
			return "false"
		case u.Info()&types.IsString != 0:
			return "emptystr"
		case u.Info()&types.IsFloat != 0:
			return "(fin 0.0)"
		}
		return "0"
	case *types.Pointer:
		return "(mkptr 0 0)"
	case *types.Slice:
		return "(mkslice 0 0 0 0)"
	case *types.Interface, *types.TypeParam:
		return "(mkiface 0 0)"
	case *types.Array:
		return b.constArray(u.Elem())
	case *types.Struct:
		var fs []Term
		for i := 0; i < u.NumFields(); i++ {
			fs = append(fs, b.zeroOf(u.Field(i).Type()))
		}
		return b.mkStruct(t, fs)
	}
	return "0"
}

// constArray is the all-zero array of elem. Solvers want a value under
// "as const"; where the zero value is not a literal (it contains the empty
// string constant) an array constrained pointwise is used instead.
func (b *Builder) constArray(elem types.Type) Term {
	z := b.zeroOf(elem)
	srt := b.sortOf(elem)
	if !strings.Contains(z, "emptystr") {
		return fmt.Sprintf("((as const (Array Int %s)) %s)", srt, z)
	}
	name := "zeroarr." + sanitize(srt)
	b.declTop(name, fmt.Sprintf("(declare-const %s (Array Int %s))\n(assert (forall ((i Int)) (! (= (select %s i) %s) :pattern ((select %s i)))))", name, srt, name, z, name))
	return name
}

// heapName is the name of the object heap for element type t:
// (Array Int (Array Int sort)) – ref -> index -> value.
func (b *Builder) heapName(t types.Type) string {
	b.sortOf(t) // declare the sort
	k := "HS." + sanitize(typeKey(t))
	b.noteHeapElem(k, t)
	return k
}

// typeKey is a canonical name of a Go type: objects of types with different
// keys live in different heaps (Go's type system keeps them apart, unsafe
// conversions aside), so a write to a []byte can never be mistaken for a write
// to a []chan error even though both are integers in SMT.
func typeKey(t types.Type) string {
	switch u := t.(type) {
	case *types.Alias:
		return typeKey(types.Unalias(u))
	case *types.Basic:
		if int(u.Kind()) < len(types.Typ) && types.Typ[u.Kind()] != nil {
			return types.Typ[u.Kind()].Name()
		}
		return u.Name()
	case *types.Pointer:
		return "ptr." + typeKey(u.Elem())
	case *types.Slice:
		return "sl." + typeKey(u.Elem())
	case *types.Array:
		return fmt.Sprintf("arr%d.%s", u.Len(), typeKey(u.Elem()))
	case *types.Map:
		return "map." + typeKey(u.Key()) + "." + typeKey(u.Elem())
	case *types.Chan:
		return "chan." + typeKey(u.Elem())
	case *types.Named:
		return shortTypeName(u)
	case *types.Interface:
		if u.NumMethods() == 0 {
			return "any"
		}
		return "iface." + u.String()
	case *types.Signature:
		return "func"
	case *types.Struct:
		var fs []string
		for i := 0; i < u.NumFields(); i++ {
			fs = append(fs, u.Field(i).Name()+":"+typeKey(u.Field(i).Type()))
		}
		return "struct." + strings.Join(fs, ".")
	}
	return t.String()
}

func (b *Builder) heapSort(t types.Type) string {
	return "(Array Int (Array Int " + b.sortOf(t) + "))"
}

// ---- strings ----

func (b *Builder) strLit(s string) Term {
	if s == "" {
		return "emptystr"
	}
	if n, ok := b.strLits[s]; ok {
		return n
	}
	n := fmt.Sprintf("strlit!%d", len(b.strLits))
	b.strLits[s] = n
	b.strOrder = append(b.strOrder, s)
	return n
}

// strDecls declares the literals: pairwise distinct, distinct from the empty
// string, with their byte lengths, and (when ordering is used) their relative
// order.
func (b *Builder) strDecls() string {
	var sb strings.Builder
	names := []string{"emptystr"}
	for _, s := range b.strOrder {
		n := b.strLits[s]
		fmt.Fprintf(&sb, "(declare-const %s Str)\n(assert (= (strlen %s) %d))\n", n, n, len(s))
		names = append(names, n)
	}
	if len(names) > 1 {
		fmt.Fprintf(&sb, "(assert (distinct %s))\n", strings.Join(names, " "))
	}
	if b.needStrOrder {
		sb.WriteString("(assert (forall ((a Str)) (not (strlt a a))))\n")
		sb.WriteString("(assert (forall ((a Str) (b Str)) (! (or (strlt a b) (strlt b a) (= a b)) :pattern ((strlt a b)))))\n")
		sb.WriteString("(assert (forall ((a Str) (b Str)) (! (not (and (strlt a b) (strlt b a))) :pattern ((strlt a b)))))\n")
		sb.WriteString("(assert (forall ((a Str) (b Str) (c Str)) (! (=> (and (strlt a b) (strlt b c)) (strlt a c)) :pattern ((strlt a b) (strlt b c)))))\n")
		// concrete order among literals
		lits := append([]string{}, b.strOrder...)
		sort.Strings(lits)
		for i := 0; i+1 < len(lits); i++ {
			fmt.Fprintf(&sb, "(assert (strlt %s %s))\n", b.strLits[lits[i]], b.strLits[lits[i+1]])
		}
		if len(lits) > 0 {
			fmt.Fprintf(&sb, "(assert (strlt emptystr %s))\n", b.strLits[lits[0]])
		}
		sb.WriteString("(assert (forall ((a Str)) (! (or (= a emptystr) (strlt emptystr a)) :pattern ((strlt emptystr a)))))\n")
	}
	return sb.String()
}

// ---- dynamic type ids ----

func (b *Builder) typeID(t types.Type) int {
	k := types.TypeString(t, nil)
	if id, ok := b.typeIDs[k]; ok {
		return id
	}
	id := len(b.typeIDs) + 1
	b.typeIDs[k] = id
	b.typeList = append(b.typeList, t)
	return id
}

// script renders the query prefix up to position p.
func (b *Builder) script(p int) string {
	var sb strings.Builder
	sb.WriteString(strings.Join(b.top, "\n"))
	sb.WriteString("\n")
	sb.WriteString(b.strDecls())
	for _, l := range b.lines[:p] {
		sb.WriteString(l)
		sb.WriteString("\n")
	}
	return sb.String()
}

func and(ts ...Term) Term {
	var out []Term
	for _, t := range ts {
		if t == "true" || t == "" {
			continue
		}
		if t == "false" {
			return "false"
		}
		out = append(out, t)
	}
	switch len(out) {
	case 0:
		return "true"
	case 1:
		return out[0]
	}
	return "(and " + strings.Join(out, " ") + ")"
}

func or(ts ...Term) Term {
	var out []Term
	for _, t := range ts {
		if t == "false" || t == "" {
			continue
		}
		if t == "true" {
			return "true"
		}
		out = append(out, t)
	}
	switch len(out) {
	case 0:
		return "false"
	case 1:
		return out[0]
	}
	return "(or " + strings.Join(out, " ") + ")"
}

func not(t Term) Term {
	switch t {
	case "true":
		return "false"
	case "false":
		return "true"
	}
	return "(not " + t + ")"
}

func implies(a, c Term) Term {
	if a == "true" {
		return c
	}
	if c == "true" {
		return "true"
	}
	return "(=> " + a + " " + c + ")"
}

func ite(c, a, b Term) Term {
	if c == "true" {
		return a
	}
	if c == "false" {
		return b
	}
	if a == b {
		return a
	}
	return "(ite " + c + " " + a + " " + b + ")"
}
