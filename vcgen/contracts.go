package main

import (
	"bufio"
	"fmt"
	"os"
	"path/filepath"
	"strconv"
	"strings"
)

// Contract is one "//@ func" block of /repo/contracts_verif.go.
type Contract struct {
	Name          string
	Props         []string
	Requires      []*Clause
	Ensures       []*Clause
	LoopInvs      map[int][]*Clause // loop ordinal -> invariants
	Asserts       []*AnchoredAssert
	Modifies      []string // raw targets
	HasModifies   bool
	Ghosts        []GhostParam // universally quantified ghost inputs
	Safety        bool         // generate no-panic obligations
	Pure          bool
	Extern        bool   // assumed contract (dependency / interface method)
	Trusted       string // reason, for extern
	MayPanic      bool
	Line          int
	Lets          []*LetClause
	NoInline      bool
	Appends       []*Clause // slices whose spare capacity this function is declared to own
	GhostArgs     []*GhostArg
	SumNonneg     bool     // opt-in: the non-negativity lemma of folds
	SumCount      bool     // opt-in: the counting lemmas of folds (one-point change, all zeros, all ones)
	HeapFacts     bool     // opt-in: quantified well-typed-heap axioms and operand-side append facts
	HeapFactTypes []string // optional: only the heaps of these types get the axioms
	Entry         []*EntryGhost
	Exit          []*EntryGhost
	Assumed       string
	AllocLimit    *Expr
}

type GhostParam struct {
	Name string
	Type string // int | real | bool | str
}

type LetClause struct {
	Name string
	Expr *Expr
	Src  string
}

type Clause struct {
	Src   string
	Expr  *Expr
	Line  int
	Props []string // override: clause-level property tags
	Label string
	// Group: proof group of a loop invariant ("[C12:kind]"). The obligations of a
	// grouped invariant are attempted without the assumed invariants of the other
	// groups of the same function (ungrouped clauses are always kept). Dropping
	// assumptions is sound; it keeps independent arguments over the same loops
	// (sums here, key sets there) from slowing each other down.
	Group string
}

type AnchoredAssert struct {
	Kind   string // "call", "return"
	Callee string
	N      int
	Clause *Clause
	Assume bool   // never true: there is no assume in the language
	Bump   string // ghost counter incremented when the anchored call executes (no clause)
}

// Pred is a non-recursive spec macro.
type Pred struct {
	Name   string
	Params []GhostParam
	Body   *Expr
	Src    string
	Line   int
}

// GhostVar is a global ghost state variable, updated only by contracts.
type GhostVar struct {
	Name string
	Type string // int | bool | map[int]int | map[int]bool
}

// SpecFun is an uninterpreted spec function with optional axioms.
type SpecFun struct {
	Name   string
	Params []GhostParam
	Ret    string
	Axioms []*Clause
}

type Contracts struct {
	Funcs      map[string]*Contract
	Order      []string
	Preds      map[string]*Pred
	Ghosts     map[string]*GhostVar
	GhostOrder []string
	SpecFuns   map[string]*SpecFun
	File       string
	Globals    []*Clause
	PlainCodec []PlainCodec // plaincodec [Cxx] T ...: types that must not declare their own JSON / text codec
}

// PlainCodec: a structural obligation, decided from the type information on
// every run — the named types (and pointers to them) declare none of
// MarshalJSON / UnmarshalJSON / MarshalText / UnmarshalText, so encoding/json
// treats them field by field (the stated assumption behind "round-trips through
// JSON": a custom codec on one of them would change what a round trip preserves).
type PlainCodec struct {
	Props []string
	Types []string
	Line  int
}

func contractsPath() string {
	return filepath.Join(repoDir(), "contracts_verif.go")
}

var clauseKeywords = map[string]bool{
	"func": true, "extern": true, "props": true, "requires": true, "ensures": true,
	"loop": true, "modifies": true, "ghost": true, "safety": true, "pure": true,
	"pred": true, "ghostvar": true, "at": true, "trusted": true, "may_panic": true,
	"let": true, "specfun": true, "axiom": true, "noinline": true, "sumnonneg": true, "sumcount": true, "plaincodec": true, "heapfacts": true, "appends": true, "end": true,
	"entry": true, "modset": true, "exit": true, "global": true, "assumed": true, "alloc_limit": true,
}

// GhostArg: a caller-side instantiation of a callee's ghost parameter.
type GhostArg struct {
	Callee string
	N      int
	Name   string
	Clause *Clause
}

// EntryGhost is a ghost assignment executed when the function is entered.
type EntryGhost struct {
	Name string // ghost variable
	Expr *Expr
	Src  string
}

func parseContracts(path string) (*Contracts, error) {
	f, err := os.Open(path)
	if err != nil {
		return nil, err
	}
	defer f.Close()
	cs := &Contracts{Funcs: map[string]*Contract{}, Preds: map[string]*Pred{}, Ghosts: map[string]*GhostVar{}, SpecFuns: map[string]*SpecFun{}, File: path}

	// gather logical clauses (keyword + text with continuation lines joined)
	type rawClause struct {
		kw, text string
		line     int
	}
	var raws []rawClause
	sc := bufio.NewScanner(f)
	sc.Buffer(make([]byte, 1<<20), 1<<20)
	ln := 0
	for sc.Scan() {
		ln++
		line := strings.TrimSpace(sc.Text())
		if !strings.HasPrefix(line, "//@") {
			continue
		}
		body := strings.TrimSpace(strings.TrimPrefix(line, "//@"))
		// strip trailing comment "// ..." (not inside string literal)
		body = stripLineComment(body)
		if body == "" {
			continue
		}
		kw := body
		rest := ""
		if i := strings.IndexAny(body, " \t"); i >= 0 {
			kw, rest = body[:i], strings.TrimSpace(body[i+1:])
		}
		if clauseKeywords[kw] {
			raws = append(raws, rawClause{kw, rest, ln})
		} else {
			if len(raws) == 0 {
				return nil, fmt.Errorf("%s:%d: continuation without clause", path, ln)
			}
			raws[len(raws)-1].text += " " + body
		}
	}
	if err := sc.Err(); err != nil {
		return nil, err
	}

	var cur *Contract
	var curSpec *SpecFun
	modsets := map[string][]string{}
	mkClause := func(text string, line int) (*Clause, error) {
		cl := &Clause{Src: text, Line: line}
		// optional leading [C04,C18] tag and label:
		t := text
		if strings.HasPrefix(t, "[") {
			if j := strings.Index(t, "]"); j > 0 {
				for _, p := range strings.Split(t[1:j], ",") {
					p = strings.TrimSpace(p)
					// "C12:kind": proof group of the clause (see Clause.Group)
					if k := strings.Index(p, ":"); k > 0 {
						cl.Group = p[k+1:]
						p = p[:k]
					}
					cl.Props = append(cl.Props, p)
				}
				t = strings.TrimSpace(t[j+1:])
			}
		}
		e, err := parseExpr(t)
		if err != nil {
			return nil, fmt.Errorf("%s:%d: %v in %q", path, line, err, t)
		}
		cl.Expr = e
		cl.Src = t
		return cl, nil
	}
	for _, r := range raws {
		switch r.kw {
		case "func", "extern":
			name := r.text
			cur = &Contract{Name: name, LoopInvs: map[int][]*Clause{}, Line: r.line, Extern: r.kw == "extern"}
			if _, dup := cs.Funcs[name]; dup {
				return nil, fmt.Errorf("%s:%d: duplicate contract for %s", path, r.line, name)
			}
			cs.Funcs[name] = cur
			cs.Order = append(cs.Order, name)
			curSpec = nil
		case "end":
			cur = nil
			curSpec = nil
		case "pred":
			// pred name(p1 type, p2 type) = expr
			eq := strings.Index(r.text, "=")
			// find the '=' after the closing paren
			cp := strings.Index(r.text, ")")
			if cp < 0 {
				return nil, fmt.Errorf("%s:%d: bad pred", path, r.line)
			}
			eq = cp + 1 + strings.Index(r.text[cp+1:], "=")
			head := strings.TrimSpace(r.text[:cp+1])
			body := strings.TrimSpace(r.text[eq+1:])
			op := strings.Index(head, "(")
			p := &Pred{Name: strings.TrimSpace(head[:op]), Src: body, Line: r.line}
			params := strings.TrimSpace(head[op+1 : len(head)-1])
			if params != "" {
				for _, ps := range strings.Split(params, ",") {
					fs := strings.Fields(ps)
					if len(fs) != 2 {
						return nil, fmt.Errorf("%s:%d: bad pred param %q", path, r.line, ps)
					}
					p.Params = append(p.Params, GhostParam{fs[0], fs[1]})
				}
			}
			e, err := parseExpr(body)
			if err != nil {
				return nil, fmt.Errorf("%s:%d: %v in pred %s", path, r.line, err, p.Name)
			}
			p.Body = e
			cs.Preds[p.Name] = p
		case "specfun":
			// specfun name(p type, ...) rettype
			cp := strings.LastIndex(r.text, ")")
			op := strings.Index(r.text, "(")
			if cp < 0 || op < 0 {
				return nil, fmt.Errorf("%s:%d: bad specfun", path, r.line)
			}
			sf := &SpecFun{Name: strings.TrimSpace(r.text[:op]), Ret: strings.TrimSpace(r.text[cp+1:])}
			params := strings.TrimSpace(r.text[op+1 : cp])
			if params != "" {
				for _, ps := range strings.Split(params, ",") {
					fs := strings.Fields(ps)
					if len(fs) != 2 {
						return nil, fmt.Errorf("%s:%d: bad specfun param %q", path, r.line, ps)
					}
					sf.Params = append(sf.Params, GhostParam{fs[0], fs[1]})
				}
			}
			cs.SpecFuns[sf.Name] = sf
			curSpec = sf
			cur = nil
		case "axiom":
			if curSpec == nil {
				return nil, fmt.Errorf("%s:%d: axiom outside specfun", path, r.line)
			}
			cl, err := mkClause(r.text, r.line)
			if err != nil {
				return nil, err
			}
			curSpec.Axioms = append(curSpec.Axioms, cl)
		case "global":
			// global <expr>: package-level invariant assumed on entry of every
			// function under contract (e.g. sentinel errors are non-nil)
			cl, err := mkClause(r.text, r.line)
			if err != nil {
				return nil, err
			}
			cs.Globals = append(cs.Globals, cl)
		case "modset":
			// modset name = target, target, ...
			eq := strings.Index(r.text, "=")
			if eq < 0 {
				return nil, fmt.Errorf("%s:%d: modset name = targets", path, r.line)
			}
			var ts []string
			for _, t := range strings.Split(r.text[eq+1:], ",") {
				if t = strings.TrimSpace(t); t != "" {
					ts = append(ts, t)
				}
			}
			modsets[strings.TrimSpace(r.text[:eq])] = ts
		case "plaincodec":
			txt := strings.TrimSpace(r.text)
			pc := PlainCodec{Line: r.line}
			if strings.HasPrefix(txt, "[") {
				if j := strings.Index(txt, "]"); j > 0 {
					for _, p := range strings.Split(txt[1:j], ",") {
						pc.Props = append(pc.Props, strings.TrimSpace(p))
					}
					txt = txt[j+1:]
				}
			}
			pc.Types = strings.Fields(txt)
			cs.PlainCodec = append(cs.PlainCodec, pc)
		case "ghostvar":
			fs := strings.Fields(r.text)
			if len(fs) != 2 {
				return nil, fmt.Errorf("%s:%d: ghostvar name type", path, r.line)
			}
			cs.Ghosts[fs[0]] = &GhostVar{fs[0], fs[1]}
			cs.GhostOrder = append(cs.GhostOrder, fs[0])
		default:
			if cur == nil {
				return nil, fmt.Errorf("%s:%d: clause %q outside a func block", path, r.line, r.kw)
			}
			switch r.kw {
			case "props":
				cur.Props = strings.Fields(r.text)
			case "safety":
				cur.Safety = true
			case "pure":
				cur.Pure = true
			case "noinline":
				cur.NoInline = true
			case "sumnonneg":
				cur.SumNonneg = true
			case "sumcount":
				// optional [Cxx,Cyy]: only in the checks of those properties
				txt := strings.TrimSpace(r.text)
				on := true
				if strings.HasPrefix(txt, "[C") {
					if j := strings.Index(txt, "]"); j > 0 {
						on = checkProp == ""
						for _, p := range strings.Split(txt[1:j], ",") {
							if strings.TrimSpace(p) == checkProp {
								on = true
							}
						}
					}
				}
				if on {
					cur.SumCount = true
				}
			case "heapfacts":
				// optional leading [Cxx,Cyy]: only in the checks of those properties
				txt := strings.TrimSpace(r.text)
				if strings.HasPrefix(txt, "[C") {
					if j := strings.Index(txt, "]"); j > 0 {
						on := checkProp == ""
						for _, p := range strings.Split(txt[1:j], ",") {
							if strings.TrimSpace(p) == checkProp {
								on = true
							}
						}
						if !on {
							break
						}
						r.text = txt[j+1:]
					}
				}
				cur.HeapFacts = true
				for _, t := range strings.Split(r.text, ",") {
					if t = strings.TrimSpace(t); t != "" {
						cur.HeapFactTypes = append(cur.HeapFactTypes, t)
					}
				}
			case "may_panic":
				cur.MayPanic = true
			case "trusted":
				cur.Trusted = r.text
			case "alloc_limit":
				// alloc_limit <expr>: every make([]T, n) in the body needs n <= expr
				// (evaluated in the entry state) — "never allocate beyond the file"
				ex, err := parseExpr(r.text)
				if err != nil {
					return nil, fmt.Errorf("%s:%d: %v", path, r.line, err)
				}
				cur.AllocLimit = ex
			case "assumed":
				// in-package contract used at call sites but not verified against
				// its body (outside the generator's reach); listed as an assumption
				cur.Assumed = r.text
				if cur.Assumed == "" {
					cur.Assumed = "not verified"
				}
			case "modifies":
				cur.HasModifies = true
				for _, t := range strings.Split(r.text, ",") {
					t = strings.TrimSpace(t)
					if strings.HasPrefix(t, "$") {
						ms, ok := modsets[t[1:]]
						if !ok {
							return nil, fmt.Errorf("%s:%d: unknown modset %s", path, r.line, t)
						}
						cur.Modifies = append(cur.Modifies, ms...)
						continue
					}
					if t != "" && t != "nothing" {
						cur.Modifies = append(cur.Modifies, t)
					}
				}
			case "ghost":
				fs := strings.Fields(r.text)
				if len(fs) != 2 {
					return nil, fmt.Errorf("%s:%d: ghost name type", path, r.line)
				}
				cur.Ghosts = append(cur.Ghosts, GhostParam{fs[0], fs[1]})
			case "exit":
				// exit ghost.x = expr : ghost assignment executed on return (may mention results)
				eq := strings.Index(r.text, "=")
				if eq < 0 || !strings.HasPrefix(strings.TrimSpace(r.text), "ghost.") {
					return nil, fmt.Errorf("%s:%d: exit ghost.<name> = expr", path, r.line)
				}
				e, err := parseExpr(strings.TrimSpace(r.text[eq+1:]))
				if err != nil {
					return nil, fmt.Errorf("%s:%d: %v", path, r.line, err)
				}
				cur.Exit = append(cur.Exit, &EntryGhost{Name: strings.TrimPrefix(strings.TrimSpace(r.text[:eq]), "ghost."), Expr: e, Src: r.text})
			case "entry":
				// entry ghost.x = expr
				eq := strings.Index(r.text, "=")
				if eq < 0 || !strings.HasPrefix(strings.TrimSpace(r.text), "ghost.") {
					return nil, fmt.Errorf("%s:%d: entry ghost.<name> = expr", path, r.line)
				}
				e, err := parseExpr(strings.TrimSpace(r.text[eq+1:]))
				if err != nil {
					return nil, fmt.Errorf("%s:%d: %v", path, r.line, err)
				}
				cur.Entry = append(cur.Entry, &EntryGhost{Name: strings.TrimPrefix(strings.TrimSpace(r.text[:eq]), "ghost."), Expr: e, Src: r.text})
			case "let":
				eq := strings.Index(r.text, "=")
				if eq < 0 {
					return nil, fmt.Errorf("%s:%d: let name = expr", path, r.line)
				}
				e, err := parseExpr(strings.TrimSpace(r.text[eq+1:]))
				if err != nil {
					return nil, fmt.Errorf("%s:%d: %v", path, r.line, err)
				}
				cur.Lets = append(cur.Lets, &LetClause{Name: strings.TrimSpace(r.text[:eq]), Expr: e, Src: r.text})
			case "requires":
				cl, err := mkClause(r.text, r.line)
				if err != nil {
					return nil, err
				}
				cur.Requires = append(cur.Requires, cl)
			case "appends":
				cl, err := mkClause(r.text, r.line)
				if err != nil {
					return nil, err
				}
				cur.Appends = append(cur.Appends, cl)
			case "ensures":
				cl, err := mkClause(r.text, r.line)
				if err != nil {
					return nil, err
				}
				cur.Ensures = append(cur.Ensures, cl)
			case "loop":
				// loop <k> invariant <expr>
				fs := strings.SplitN(r.text, " ", 3)
				if len(fs) < 3 || fs[1] != "invariant" {
					return nil, fmt.Errorf("%s:%d: loop <k> invariant <expr>", path, r.line)
				}
				k, err := strconv.Atoi(fs[0])
				if err != nil {
					return nil, fmt.Errorf("%s:%d: bad loop ordinal", path, r.line)
				}
				cl, err := mkClause(fs[2], r.line)
				if err != nil {
					return nil, err
				}
				cur.LoopInvs[k] = append(cur.LoopInvs[k], cl)
			case "at":
				// at call <callee>#<n> assert <expr>
				fs := strings.SplitN(r.text, " ", 4)
				if len(fs) == 4 && fs[0] == "call" && fs[2] == "ghost" {
					// at call <callee>#<n> ghost <name> = <expr>: the value the caller
					// supplies for a ghost parameter of the callee's lemma-style contract
					callee := fs[1]
					n := 0
					if i := strings.LastIndex(callee, "#"); i >= 0 {
						n, _ = strconv.Atoi(callee[i+1:])
						callee = callee[:i]
					}
					eq := strings.SplitN(fs[3], "=", 2)
					if len(eq) != 2 {
						return nil, fmt.Errorf("%s:%d: at call <callee>#<n> ghost <name> = <expr>", path, r.line)
					}
					cl, err := mkClause(strings.TrimSpace(eq[1]), r.line)
					if err != nil {
						return nil, err
					}
					cur.GhostArgs = append(cur.GhostArgs, &GhostArg{Callee: callee, N: n, Name: strings.TrimSpace(eq[0]), Clause: cl})
					continue
				}
				if len(fs) == 4 && fs[0] == "call" && fs[2] == "bump" {
					// at call <callee>#<n> bump <ghost counter>: the counter goes up by one
					// each time this call is executed (an event count for calls that have no
					// contract of their own to carry it: a function value, a library call)
					callee := fs[1]
					n := 0
					if i := strings.LastIndex(callee, "#"); i >= 0 {
						n, _ = strconv.Atoi(callee[i+1:])
						callee = callee[:i]
					}
					cur.Asserts = append(cur.Asserts, &AnchoredAssert{Kind: "call", Callee: callee, N: n, Bump: strings.TrimSpace(fs[3])})
					continue
				}
				if len(fs) < 4 || (fs[0] != "call" && fs[0] != "select") || fs[2] != "assert" {
					return nil, fmt.Errorf("%s:%d: at call|select <callee>#<n> assert <expr>", path, r.line)
				}
				callee := fs[1]
				n := 0
				if i := strings.LastIndex(callee, "#"); i >= 0 {
					n, _ = strconv.Atoi(callee[i+1:])
					callee = callee[:i]
				}
				cl, err := mkClause(fs[3], r.line)
				if err != nil {
					return nil, err
				}
				cur.Asserts = append(cur.Asserts, &AnchoredAssert{Kind: fs[0], Callee: callee, N: n, Clause: cl})
			}
		}
	}
	return cs, nil
}

func stripLineComment(s string) string {
	inStr := false
	for i := 0; i+1 < len(s); i++ {
		if s[i] == '"' {
			inStr = !inStr
		}
		if !inStr && s[i] == '/' && s[i+1] == '/' {
			return strings.TrimSpace(s[:i])
		}
	}
	return s
}

func (c *Contract) hasProp(p string) bool {
	for _, q := range c.Props {
		if q == p {
			return true
		}
	}
	return false
}
