#!/usr/bin/env python3
"""Regenerates /verif/MANIFEST.json from the table below (kept valid at all times)."""
import json, subprocess

BASE_OFF = ("cd /repo && PATH=/opt/veriftools/go1.26.8/bin:$PATH GOTOOLCHAIN=local GOFLAGS=-mod=mod "
            "GOPROXY=off GOSUMDB=off go test -json -vet=off -count=1 -timeout 25m ./...")

TECH = "contract-based deductive verification: VCs generated from go/ssa of the real functions, contracts in /repo/contracts_verif.go, discharged by z3/cvc5"

# property -> (level text, level note, design ref)
CLAIMED = {
    "C04": ("Soundness of prefilter pruning proved at every level, with no bound: the min/max overlap test for every operator, operand, block range, saturation state and row value in R u {+-inf} (EvaluateMinMaxCondition against covers/sat); conversions and clamping for every dynamic numeric kind incl. named types (on the repaired tree, fix b2d7c7b); UpdateMinMaxIndex; the leaf evaluator (evaluatePrefilterCondition: a partition or minmax condition the row satisfies is never false on a block that holds the row); the tree evaluator by induction on the tree (evaluatePrefilterExpression verified against its own contract at its recursive calls, OR/AND loops by invariant: for every valuation of nodes consistent one level down with the documented AND/OR/leaf semantics, a block holding a row that satisfies the expression is admitted), EvaluateDataBlockMetadata and FilterDataBlocks (every block that holds such a row is in the result); and the merge link: mergeMinMaxIndexes returns exactly the union of the key sets with ranges containing both inputs' ranges, and a merged block's ranges contain the ranges of every source block of its group.",
            "Trusted: go/ssa, the SSA->SMT encoder, the solvers. Floats modelled as extended reals (exact for floor/ceil/compare). The row is a ghost (uninterpreted partition ID and per-field values); 'block holds the row' (same partition ID, ranges cover the row's values) is the hypothesis. Ingest link, loop level only: once processIngestRequest has looked at the configured index fields of a row, the partition buffer's range for every field the row holds as a number contains the bounds the conversion gives (inductive invariant of the minmax loop, duplicates in the configured list included); that this composes over all rows and partitions into 'every flushed block holds its rows' is on paper (DESIGN §19).", "§7 C04, §19"),
    "C12": ("Layout limits of Merge proved with unbounded folds (sum over the members of a group, for groups of any length): in processPartitionBlocks the running totals are exactly the sums of the source blocks' Rows / UncompressedSize over the group, a block joins only if both totals stay within MaxRowGroupRows / MaxRowGroupBytes, finished groups are never touched again (inductive invariant over the list of groups), and every group handed to mergeDataBlocks — the one place blocks are combined — satisfies both limits (its precondition, proved at the call site after a frame argument: the callees write no index list); blocksWithinMergeLimits equals its mathematical specification; identifyFileMergeGroups returns groups of at least two files whose total number of files is within MaxFilesToMergePerOperation (fold of group lengths), and merge() issues exactly one delete operation per member of those groups, so the number of files removed at the commit (asserted at MetaStore.Update) is within the limit.",
            "Stated for counters and limits in [0, 2^62), the range in which the Go additions are exact (preconditions of the top-level functions, listed in the evidence). The fold lemmas (empty, one element, step, extensionality, concatenation, non-negativity) are proved by induction on every run (prelude/isum-* obligations), not assumed. NOT decided: the MaxFileSize clause (needs sort.Slice's permutation property for the candidates), 'same minmax key set' (blockMergeKey is abstracted; the groups are formed inside one bucket but the bucket-key relation is not under contract), and that a merged block's own Rows equals the sum of its sources' (C17 counters).", "§7 C12, §18"),
    "C19": ("No-panic / in-bounds obligations and exact functional contracts (validSection) for the framing validators the read path relies on, proved for all 2^64 values of every offset and size field (compare-by-subtraction proved overflow-proof under the stated preconditions); ReadFileMetadata returns metadata only if everything it describes (region and every block's two extents) lies inside the file, for every value of every footer field.",
            "Trusted: go/ssa, encoder, solvers; fmt.Errorf returns non-nil (extern). Library decoders and CRC collisions are assumptions.", "§7 C19"),
}

CLAIMED.update({
    "C05": ("Exactly-once answering proved per function on the real code: sendWithContext/sendOptionalWithContext/sendToChannelsWithContext (every waiter attempted once even after a failed send), handleFlush (one answer round on every path for every combination of failing store calls), processIngestRequest (each request answered now xor retained, for every path through its eight loops), flushBufferedData (copies handed to the flush queue hold exactly the pending buffers and waiters; state empty afterwards), triggerFlush (enqueue or abandon-with-answers, never neither), IngestRows/Flush (accepted iff sent on ingestChan while the read lock is held; lock released on every path), ingestWorker (every request processed with the flush context).",
            "Sequential, per-function obligations only; the interleaving argument composing them (stopped flag under the write lock, FIFO lossless channels, drain on shutdown) is on paper in DESIGN §7 and is an assumption. Store and context interfaces are extern contracts whose results are unconstrained.", "§7 C05"),
    "C06": ("Ack-after-commit proved for handleFlush for every outcome of every store call (results of CreateFile, Write, Close, Abort, Update, TombstoneFile are unconstrained, so every single fault and every combination is covered): a nil answer round for a non-empty request starts only after Close and Update returned nil; Update is called only after Close returned nil; an error answer means Update did not succeed and a created file was tombstoned; abortFileWriter aborts-or-closes once and always tombstones.",
            "Ghost counters are updated only by extern contracts of the store interfaces (assumed) and entry clauses of the answer helpers. Read-side visibility and the batch-atomicity frame of processIngestRequest are not yet under contract (DESIGN §7 C06).", "§7 C06"),
    "C07": ("Routing obligations on the ingest actor: a force flush always enqueues through triggerFlush and never answers inline; no nil answer to a non-empty batch or to Flush is ever produced on the ingest actor (processIngestRequest, flushBufferedData, triggerFlush: sentnil unchanged for every channel).",
            "Channel FIFO-ness and the single-producer/single-consumer structure are runtime/structural assumptions (DESIGN §7 C07).", "§7 C07"),
    "C08": ("Sequential Stop-contract obligations: IngestRows and Flush return ErrEngineStopped and send nothing whenever they observe stopped; handleFlush with the flush context already done performs no CreateFile/Update and produces no success acknowledgement, while still attempting every waiter.",
            "Timing ('by roughly that deadline'), late AfterFunc callbacks and Stop's own body are not yet under contract (DESIGN §7 C08).", "§7 C08"),
    "C09": ("Mechanism obligations: IngestRows accepts only by a completed send on ingestChan; triggerFlush's hand-off to the flush worker is a blocking select (enqueue or abandon, never a silent drop); the constructor gives the queues exactly the configured capacities (ingestChan = IngestBufferSize, flushChan = 1, query semaphore = MaxQueryConcurrency) and Start spawns the two workers exactly once; the buffer-level counters are truthful — while a batch is buffered *bufferedBytes advances by exactly the bytes handed to the partitions' compression stages and *bufferedRowCount by one per row, whatever partitions the batch touches (loop invariants of the three nested buffering loops) — so MaxBufferedRows / MaxBufferedBytes bound what the actor really holds.",
            "The composition of the bound (ingest buffer + a few flushes' worth) from these mechanism obligations is on paper (DESIGN §7 C09). Hypotheses at the top of the chain: the two counters are different variables, every buffered partition's compression stage is not an output file's writer.", "§7 C09"),
    "C13": ("Merge commit protocol proved for every outcome of every store call: executeMergeGroup returns a pointer only after Close returned nil and otherwise tombstones exactly its own output; merge calls Update at most once, only after every group's output was closed successfully and before any tombstone; without a commit the number of tombstones equals the number of created outputs (every orphan removed, no source touched); the three result shapes (nil / stats+nil / stats+ErrPostCommitCleanup) imply what the property says; Merge is single-flight (TryLock failure does no store work, lock released once on every path).",
            "Ghost counters via extern store contracts (assumed). Actual contention between goroutines is sync.Mutex's contract.", "§7 C13"),
    "C27": ("Frame condition for the whole package discharged on every run by reachability over go/ssa (static calls, closures, class-hierarchy interface resolution over bloomsearch and its module dependencies, constant-branch pruning): no function reachable from the exported API references os.Stdout/os.Stderr, calls print/println, or calls a standard-library stdout/stderr sink; plus the constructor obligation that the logger field is config.Logger or slog.New(slog.DiscardHandler) under a nil test.",
            "Back end is call-graph analysis, not SMT. The standard library is assumed to reach stdout/stderr only through the listed sinks; runtime panics excluded.", "§7 C27"),
})

CLAIMED.update({
    "C02": ("Verify-before-deliver proved on processDataBlock for every path: rowBatcher.add requires (ghost typestate) that matchRowBytes just accepted the row, so per-row verification cannot be skipped or reordered; a batch is handed to deliver exactly once and forgotten (rowBatcher.flush), deliver performs at most one send on the row channel and exactly one when it returns nil; each scanner step consumes a strictly later extent (BlockRowScanner.Next).",
            "matchRowBytes' own contract is assumed (gjson-bound body); matcher tree semantics and end-to-end multiset equality are not yet under contract (DESIGN §7 C02).", "§7 C02"),
    "C03": ("Ownership obligations: materializeRow never takes a zero-copy view (ghost count of unsafeString calls unchanged: delivered rows are parsed from an independent copy); scan-buffer typestate (bufOwned) proved for getScanBuffer/putScanBuffer/readChunkFrom/filtersFor/release: a pooled buffer is returned at most once and the cursor never keeps a buffer it returned; the row data readPooledBlockRowData hands to a scan is a buffer still checked out of the pool (it has not been handed back, for every compression setting incl. the legacy empty one).",
            "JSON fidelity versus encoding/json is not decided by contracts (bounded stand-in planned, DESIGN §7 C03); sync.Pool content invariant assumed (extern).", "§7 C03"),
    "C20": ("Sequential state machine of the cursor proved: finish/terminate/Close's once-body decide err at most once (a decided terminal state is never overwritten), Next after completion returns false and changes nothing, every false return leaves a terminal state, and a cancellation observed by terminate yields an error wrapping the caller context's error; newResults stores the CALLER's context as callerCtx (a deliberate Close cancels only the derived context), starts undecided and buffers queryRowBatchBuffer batches.",
            "Timing of Close versus Next across goroutines and 'eventually' are not decided (DESIGN §7 C20). context/fmt.Errorf externs assumed.", "§7 C20"),
    "C21": ("Pairing and pool obligations: processDataBlock hands back (put or discard) every handle it acquired exactly once on every path, puts only after a successful read; fileHandlePool.acquire/put/release/retain/closeAll/closeHandles/discard proved against precise frames (they write only pool state), never close under the lock, close exactly the handles they must (closeHandles: one Close per handle); querySlot.acquire/release keep 'held <=> one token' so a failed acquire never leaks a token.",
            "Goroutine termination and iterator return are not decided; evaluateBlockFilters' pairing is next (DESIGN §7 C21).", "§7 C21"),
    "C22": ("Slot discipline: querySlot.acquire/release proved (no-op when already held / not held, exactly one token moved otherwise); deliver never blocks on the consumer while holding a slot (assertion at its blocking select); processDataBlock's store reads (handle acquire, row-data read) happen while the worker's slot is held.",
            "The counting argument (tokens <= capacity => reads <= MaxQueryConcurrency) is on paper (DESIGN §7 C22).", "§7 C22"),
    "C23": ("Accounting obligations: processDataBlock records exactly one stats entry on every exit path (never a skipped one); recordUnreadBlocks records one non-skipped entry per block; recordBlockStats appends exactly one entry; Stats counts every recorded block exactly once as skipped or processed and returns a copy of the entries.",
            "Per-block sums (RowsScanned/BytesScanned equal the per-block sums) and evaluateBlockFilters' exactly-once accounting are next (DESIGN §7 C23).", "§7 C23"),
})

CLAIMED.update({
    "C10": ("Limit obligation on the ingest actor's step function: whenever processIngestRequest returns having retained the batch's waiter without calling triggerFlush, both buffer-level counters are strictly below MaxBufferedRows and MaxBufferedBytes (so reaching either limit flushes in the same call), for every batch shape and configuration; partition-level limits: while no flush has been decided, every partition the batch has finished buffering into is below MaxRowGroupRows and MaxRowGroupBytes (inductive invariant of the partition loop, carried through the row and index loops) — a partition reaching either limit makes the same call decide to flush; the buffering clock starts with the first retained batch and is never restarted.",
            "The ticker-driven time bound is a timing statement and is not decided; partition-level limits are covered only through the same post-state (DESIGN §7 C10).", "§7 C10"),
    "C24": ("Pruning obligations proved per function: FilterDataBlocks returns only blocks the prefilter admits (each result is one of the inputs and passed TestBlockPrefilter); the file stage dispatches a file only with a non-empty admitted block list and, with bloom conditions, a positive file-filter verdict; evaluateBlockFilters acquires no handle and opens nothing when the query has no bloom/regex conditions; the chunk reader and row-data readers read only inside the extents the metadata declares (readFullAt assertion, validSection/checkExtentWithinFile contracts).",
            "Store read log is ghost (opens/hAcquired counters via extern contracts, assumed). Bloom library Test is an extern (DESIGN §7 C24).", "§7 C24"),
    "C25": ("Constructor and builder semantics proved for every valuation of the leaves: flattenExpressions/flattenPrefilterExpressions/flattenRegexExpressions preserve 'all children true' and 'some child true' of the input list for the flattened operator (inductive loop invariants, unbounded lists), And/Or/PrefilterAnd/PrefilterOr/RegexAnd/RegexOr return a node of the stated operator whose children have that meaning, QueryBuilder.where/addBloomExpression/whereRegex/addRegexExpression/Build/MatchPrefilter assemble implicit conditions under a single AND and keep the explicit expression, on the bloom and on the regex side; chaining onto an explicit expression builds a new node and never writes into the caller's tree (append-shared obligations). The bloom evaluator computes exactly the documented combination: evaluateBloomCondition equals the leaf semantics over the filters (a missing filter cannot disqualify, unknown kinds are false) and evaluateBloomExpression returns, by induction on the tree, the value of every valuation that agrees one level down with the AND/OR/leaf semantics (result <==> bval).",
            "Evaluation is stated one level deep over an arbitrary valuation of child nodes (the evaluators themselves are under contract in C04/C24); JSON round-trip depends on encoding/json and is not decided by contracts (DESIGN §7 C25).", "§7 C25"),
})

CLAIMED.update({
    "C18": ("Entry-set obligations of the merge path: unionInto proved exact (afterwards the destination's three sets are precisely old ∪ source, nothing else touched; map-iteration loops by inductive invariant over the visited-key set); mergeDataBlocks folds each merged block's sets into the file-level sets exactly once after its last row was indexed; buffer lifetime: a row buffer handed to indexRow (whose retained strings may view it) is never refilled (io.ReadFull/readFullAt/decodeBlockRowDataInto) and never returned to the scan-buffer pool for the rest of the merge (ghost typestate `pinned`) in copyDataBlock, mergeDataBlocks, loadBlockRowData, ReadDataBlockRowData. Flush path (handleFlush, for any number of partition buffers, map-iteration loop by inductive invariant over the visited keys): every block's filters are built from that block's own entry sets (ghost: whose sets the last buildFilters call was made on, asserted where the section is encoded), every block's sets are folded into the file-level sets (unionInto exact), and the file-level filters are built from the file-level sets only when every block's sets are contained in them (asserted at that buildFilters call and where the footer is written).",
            "indexRow's own body (gjson/tokenizer) is an assumed contract: that every path/token/pair of the row is added is NOT decided; bloom library Add/Test is an assumption; that buildSizedBloomFilter inserts every element of its set is NOT under contract (buildFilters has a type-based frame and a ghost recording whose sets it was called on); partition IDs and the ingest-time minmax coverage are not yet under C18 contracts (the merge-time minmax link is: C04/C11) (DESIGN §7 C18, §14, §19).", "§7 C18"),
})

CLAIMED.update({
    "C17": ("Layout obligations of both writers, for every number of partitions/blocks, every grouping decision and every outcome of every store call, with no bound: in handleFlush (loop invariant + assertion where the footer is written) and in the merge path (copyDataBlock, mergeDataBlocks, processPartitionBlocks, executeMergeGroup as pre/postconditions carried through five loops) the first block's row data starts at offset 0, each block starts where the previous one ends, the recorded RowDataSize is exactly the number of bytes handed to the output file's writer for that block (ghost.written of the DataStore writer; compression stages, hashers and fan-out writers are proved not to be that writer), earlier records are never touched again, blockFilterRegionWriter.add returns (bytes buffered so far, len(section)) so sections are back to back in block order, finish writes the whole region and rebases every block's section offset exactly once by the region's position, and BlockFilterRegionOffset/Size put the region exactly at the end of the row data. On the read side FileMetadata.validate and ReadFileMetadata are under their C19 framing contracts (a file whose metadata violates this layout is rejected). Counters, merge path only: a rebuilt block's recorded Rows is the number of rows the source scanners yielded and its recorded UncompressedSize is the number of bytes handed to its compression stage (every scanned row written with its length prefix and counted exactly once).",
            "Go ints: the layout statements are made for files shorter than 2^63 bytes (flush: stated on the mathematical byte count; merge: ghost flag layoutOvf set exactly when an offset addition leaves the int range). Contiguity of the whole list is the induction over the proved per-step facts (DESIGN §14, on paper). NOT decided: the flush path's counters (partitionBuffer fields filled by processIngestRequest), RowDataHash and BloomEntryCounts (a copied block keeps the content description of its source — C11), WriteFileFooter's byte layout beyond what validate/ReadFileMetadata check, codec/JSON/bloom round trips, the public read helpers end to end. io.Writer.Write's contract (a nil error means all of p was accepted) and DataStore.CreateFile handing out the file's writer are extern assumptions.", "§7 C17, §14"),
})

CLAIMED.update({
    "C01": ("No-false-negative links proved on the real code, each for all inputs: (L4) bloom evaluation is monotone — for one arbitrary ghost row and every valuation of expression nodes consistent one level down with the documented AND/OR/leaf semantics, filters that answer true for every entry of the row never rule out an expression the row satisfies (evaluateBloomCondition incl. the 'missing filter cannot disqualify' and field:token key cases, evaluateBloomExpression by induction on the tree with OR/AND loop invariants, evaluateBloomFilters; the same functions serve the file-level and the block-level test); (L5) the chunked filter reader hands the parser byte for byte the section the block's metadata declares, for any block order, gaps and chunking (readFullAt: a successful read leaves the file's content at that offset in the buffer; readChunkFrom / heldSection / filtersFor keep 'the chunk in hand is the file's content at chunkStart' and slice it at the block's offset; asserted where parseFilterSection is called); (L6) prefilter pruning is sound at every level (the C04 obligations: operators, tree induction, FilterDataBlocks keeps every block that holds a satisfying row); section validation and read planning (validateFilterSection, planBlockFilterReads).",
            "A proof of links, not of the end-to-end statement: the composition (Query's concurrent pipeline forwards every surviving job; a block's filters hold its rows' entries — C18, whose indexRow body is an assumed contract; the row matcher agrees with indexing — C02, assumed matchRowBytes; the bloom library has no false negatives; files do not change while read; gjson/tokenizer determinism) is on paper in DESIGN §7 C01 and listed as assumptions. NOT decided: the regex guard's shape (L10) and the matcher's walk.", "§7 C01, §19"),
})

CLAIMED.update({
    "C11": ("Content-preservation links of merge proved per function, for groups of any size and blocks of any number of rows: a rebuilt block (mergeDataBlocks) carries the group's partition ID, ranges that contain the ranges of every source block (mergeMinMaxIndexes: key set = union, each merged range contains both inputs'; UpdateMinMaxIndex), and a row count equal to the number of rows the source scanners yielded — every scanned row is written and counted exactly once — and a malformed source row stream fails the merge instead of truncating it (mergeDataBlocks, copyDataBlock); a copied block keeps everything that describes its content (partition ID, ranges, row count, sizes, hash, compression) and changes only its location; each scanner step consumes a strictly later extent (BlockRowScanner.Next).",
            "A proof of links. NOT decided: that every source block lands in exactly one copy/merge group (the grouping's `used` bookkeeping is not under a C11 contract), the multiset of rows across the whole Merge, and equality of query answers before and after (follows on paper from these links plus C01/C02; DESIGN §7 C11). Source metadata truthfulness (Rows of a source block = rows in it) is C17's.", "§7 C11, §19"),
})

CLAIMED.update({
    "C16": ("Write protocol of FileSystemDataStore proved for every outcome of every filesystem call (os.* results unconstrained: any call may fail, in any combination): CreateFile only ever creates exclusively (every os.OpenFile it makes carries O_WRONLY|O_CREATE|O_EXCL — it cannot open, truncate or overwrite an existing path), for any number of name collisions and redraws (loop invariant) it returns holding exactly the reservation and the temp file of one attempt and on every failure holds nothing (each exclusive create not handed out is removed again), and it never renames; renameOnCloseFile.Close renames only after the file was synced and closed successfully, syncs the directory only after a successful rename, sets `published` only when all four steps succeeded and leaves it unchanged on any error, and removes nothing; Abort of a published file removes nothing, otherwise it removes the temp path and then the final path — both, whatever the first removal reports; TombstoneFile always removes the pointer's path (and at most one sibling), never creates or renames; the filesystem MetaStore's Update issues exactly one Remove per delete operation; OpenFile never creates.",
            "The filesystem itself is assumed: the os.OpenFile / Remove / Rename / File.Sync / File.Close contracts only count calls and record the removed path; O_EXCL's meaning, rename atomicity and what a directory scan lists are the operating system's. NOT decided: the directory-scan clause (exactly the published, untombstoned files with exactly the bytes written), that the temp path derived by TombstoneFile from a pointer equals the writer's (string reasoning over filepath.Join / TrimSuffix, left abstract), crash behaviour (C15).", "§7 C16, §19"),
})

NOT_APPLICABLE = {
    "C14": "snapshot consistency under concurrent flush/merge is an interleaving-only property; no pre/postcondition of a single call expresses it (DESIGN §8)",
    "C15": "crash consistency needs a crash semantics and durability model (crash Hoare logic) the VC generator does not have (DESIGN §8)",
    "C26": "statistical statement about hash behaviour; a contract cannot express a probability; the sizing mechanism it relies on is not under contract either (DESIGN §8)",
}

# properties designed but whose contracts are not yet discharged: listed as not
# applicable *for now* with the honest reason, moved to CLAIMED as they land.
PENDING = {}

ALL = ["C%02d" % i for i in range(1, 28)]

def main():
    checks = []
    for p in ALL:
        if p in CLAIMED:
            text, note, ref = CLAIMED[p]
            checks.append({
                "property_id": p,
                "quick_cmd": "./check %s quick" % p,
                "thorough_cmd": "./check %s thorough" % p,
                "evidence_file": "/verif/evidence/%s.json" % p,
                "replay_cmd_template": "bin/vc replay {path}",
                "engine": "vcgen",
                "level_claimed": {"category": "proof", "text": text, "design_ref": ref},
                "level_note": note,
                "technique": TECH,
            })
    na = []
    for p in ALL:
        if p in NOT_APPLICABLE:
            na.append({"property_id": p, "reason": NOT_APPLICABLE[p]})
        elif p not in CLAIMED:
            na.append({"property_id": p, "reason": PENDING.get(p, "designed (DESIGN §7) but its contracts are not yet discharged by the generator in this commit; not claimed until every obligation passes on the unchanged tree")})
    m = {
        "version": 1,
        "setup_cmd": "./setup.sh",
        "hooks": {
            "guard": "verif",
            "enable": "-tags verif (the only hook is the comment-only file /repo/contracts_verif.go)",
            "baseline_off_cmd": BASE_OFF,
            "source_commits": subprocess.run(["git", "-C", "/repo", "log", "--format=%H", "--", "contracts_verif.go"], capture_output=True, text=True).stdout.split(),
            "add_only": True,
        },
        "engines": [{
            "name": "vcgen",
            "path": "/verif/vcgen",
            "serves_properties": sorted(CLAIMED),
            "kind_free_text": "home-grown VC generator over go/ssa (x/tools v0.50.0, go1.26.8) + z3 5.1.0 / z3 4.8.12 / cvc5 1.0.3 race; contracts as //@ comments in /repo/contracts_verif.go",
        }],
        "checks": checks,
        "not_applicable": na,
        "notes": "exit 0 held / 1 VIOLATION / 2 TOOL-ERROR (never on the unchanged tree). See DESIGN.md.",
    }
    json.dump(m, open("/verif/MANIFEST.json", "w"), indent=1, ensure_ascii=False)
    print("claimed:", sorted(CLAIMED), "n/a:", len(na))

if __name__ == "__main__":
    main()
