#!/usr/bin/env python3
"""Regenerates /verif/MANIFEST.json from the table below (kept valid at all times)."""
import json, subprocess

BASE_OFF = ("cd /repo && PATH=/opt/veriftools/go1.26.8/bin:$PATH GOTOOLCHAIN=local GOFLAGS=-mod=mod "
            "GOPROXY=off GOSUMDB=off go test -json -vet=off -count=1 -timeout 25m ./...")

TECH = "contract-based deductive verification: VCs generated from go/ssa of the real functions, contracts in /repo/contracts_verif.go, discharged by z3/cvc5"

# property -> (level text, level note, design ref)
CLAIMED = {
    "C04": ("Soundness of the min/max overlap test proved for every operator, operand, block range, saturation state and row value in R∪{±inf} (EvaluateMinMaxCondition against covers/sat), range update (UpdateMinMaxIndex) and unsigned clamping proved against their mathematical specification; all loops by inductive invariant, no bound.",
            "Trusted: go/ssa, the SSA->SMT encoder, the solvers. Floats modelled as extended reals (exact for floor/ceil/compare). Conversions (toInt64/ConvertToMinMaxInt64/ConvertToInt64, every dynamic numeric kind incl. named types) proved on the repaired tree (fix b2d7c7b). Tree induction and ingest/merge links: see DESIGN §7.", "§7 C04"),
    "C12": ("Row-group limit test (blocksWithinMergeLimits) proved equal to its mathematical specification for all shapes and limits, with the overflow-free range stated as a precondition.",
            "Trusted: go/ssa, encoder, solvers. Grouping loops of processPartitionBlocks/identifyFileMergeGroups: see DESIGN §7 for what is and is not yet under contract.", "§7 C12"),
    "C19": ("No-panic / in-bounds obligations and exact functional contracts (validSection) for the framing validators the read path relies on, proved for all 2^64 values of every offset and size field (compare-by-subtraction proved overflow-proof under the stated preconditions).",
            "Trusted: go/ssa, encoder, solvers; fmt.Errorf returns non-nil (extern). Library decoders and CRC collisions are assumptions.", "§7 C19"),
}

CLAIMED.update({
    "C05": ("Exactly-once answering proved per function on the real code: sendWithContext/sendOptionalWithContext/sendToChannelsWithContext (every waiter attempted once even after a failed send), handleFlush (one answer round on every path for every combination of failing store calls), processIngestRequest (each request answered now xor retained, for every path through its eight loops), flushBufferedData (copies handed to the flush queue hold exactly the pending buffers and waiters; state empty afterwards), triggerFlush (enqueue or abandon-with-answers, never neither), IngestRows/Flush (accepted iff sent on ingestChan while the read lock is held; lock released on every path), ingestWorker (every request processed with the flush context).",
            "Sequential, per-function obligations only; the interleaving argument composing them (stopped flag under the write lock, FIFO lossless channels, drain on shutdown) is on paper in DESIGN §7 and is an assumption. Store and context interfaces are extern contracts whose results are unconstrained.", "§7 C05"),
    "C06": ("Ack-after-commit proved for handleFlush for every outcome of every store call (results of CreateFile, Write, Close, Abort, Update, TombstoneFile are unconstrained, so every single fault and every combination is covered): a nil answer round for a non-empty request starts only after Close and Update returned nil; Update is called only after Close returned nil; an error answer means Update did not succeed and a created file was tombstoned; abortFileWriter aborts-or-closes once and always tombstones.",
            "Ghost counters are updated only by extern contracts of the store interfaces (assumed) and entry clauses of the answer helpers. Read-side visibility and the batch-atomicity frame of processIngestRequest are not yet under contract (DESIGN §7 C06).", "§7 C06"),
    "C07": ("Routing obligations on the ingest actor: a force flush always enqueues through triggerFlush and never answers inline; no nil answer to a non-empty batch or to Flush is ever produced on the ingest actor (processIngestRequest, flushBufferedData, triggerFlush: sentnil unchanged for every channel).",
            "Channel FIFO-ness and the single-producer/single-consumer structure are runtime/structural assumptions (DESIGN §7 C07).", "§7 C07"),
    "C08": ("Sequential Stop-contract obligations: IngestRows and Flush return ErrEngineStopped and send nothing whenever they observe stopped; handleFlush with the flush context already done performs no CreateFile/Update and produces no success acknowledgement, while still attempting every waiter.",
            "Timing ('by roughly that deadline'), late AfterFunc callbacks and Stop's own body are not yet under contract (DESIGN §7 C08).", "§7 C08"),
    "C09": ("Mechanism obligations: IngestRows accepts only by a completed send on ingestChan; triggerFlush's hand-off to the flush worker is a blocking select (enqueue or abandon, never a silent drop).",
            "Channel capacities set by the constructor and the composition of the bound are not yet under contract (DESIGN §7 C09).", "§7 C09"),
    "C13": ("Merge commit protocol proved for every outcome of every store call: executeMergeGroup returns a pointer only after Close returned nil and otherwise tombstones exactly its own output; merge calls Update at most once, only after every group's output was closed successfully and before any tombstone; without a commit the number of tombstones equals the number of created outputs (every orphan removed, no source touched); the three result shapes (nil / stats+nil / stats+ErrPostCommitCleanup) imply what the property says; Merge is single-flight (TryLock failure does no store work, lock released once on every path).",
            "Ghost counters via extern store contracts (assumed). Actual contention between goroutines is sync.Mutex's contract.", "§7 C13"),
    "C27": ("Frame condition for the whole package discharged on every run by reachability over go/ssa (static calls, closures, class-hierarchy interface resolution over bloomsearch and its module dependencies, constant-branch pruning): no function reachable from the exported API references os.Stdout/os.Stderr, calls print/println, or calls a standard-library stdout/stderr sink; plus the constructor obligation that the logger field is config.Logger or slog.New(slog.DiscardHandler) under a nil test.",
            "Back end is call-graph analysis, not SMT. The standard library is assumed to reach stdout/stderr only through the listed sinks; runtime panics excluded.", "§7 C27"),
})

CLAIMED.update({
    "C02": ("Verify-before-deliver proved on processDataBlock for every path: rowBatcher.add requires (ghost typestate) that matchRowBytes just accepted the row, so per-row verification cannot be skipped or reordered; a batch is handed to deliver exactly once and forgotten (rowBatcher.flush), deliver performs at most one send on the row channel and exactly one when it returns nil; each scanner step consumes a strictly later extent (BlockRowScanner.Next).",
            "matchRowBytes' own contract is assumed (gjson-bound body); matcher tree semantics and end-to-end multiset equality are not yet under contract (DESIGN §7 C02).", "§7 C02"),
    "C03": ("Ownership obligations: materializeRow never takes a zero-copy view (ghost count of unsafeString calls unchanged: delivered rows are parsed from an independent copy); scan-buffer typestate (bufOwned) proved for getScanBuffer/putScanBuffer/readChunkFrom/filtersFor/release: a pooled buffer is returned at most once and the cursor never keeps a buffer it returned.",
            "JSON fidelity versus encoding/json is not decided by contracts (bounded stand-in planned, DESIGN §7 C03); sync.Pool content invariant assumed (extern).", "§7 C03"),
    "C20": ("Sequential state machine of the cursor proved: finish/terminate/Close's once-body decide err at most once (a decided terminal state is never overwritten), Next after completion returns false and changes nothing, every false return leaves a terminal state, and a cancellation observed by terminate yields an error wrapping the caller context's error.",
            "Timing of Close versus Next across goroutines and 'eventually' are not decided (DESIGN §7 C20). context/fmt.Errorf externs assumed.", "§7 C20"),
    "C21": ("Pairing and pool obligations: processDataBlock hands back (put or discard) every handle it acquired exactly once on every path, puts only after a successful read; fileHandlePool.acquire/put/release/retain/closeAll/closeHandles/discard proved against precise frames (they write only pool state), never close under the lock, close exactly the handles they must (closeHandles: one Close per handle); querySlot.acquire/release keep 'held <=> one token' so a failed acquire never leaks a token.",
            "Goroutine termination and iterator return are not decided; evaluateBlockFilters' pairing is next (DESIGN §7 C21).", "§7 C21"),
    "C22": ("Slot discipline: querySlot.acquire/release proved (no-op when already held / not held, exactly one token moved otherwise); deliver never blocks on the consumer while holding a slot (assertion at its blocking select); processDataBlock's store reads (handle acquire, row-data read) happen while the worker's slot is held.",
            "The counting argument (tokens <= capacity => reads <= MaxQueryConcurrency) is on paper (DESIGN §7 C22).", "§7 C22"),
    "C23": ("Accounting obligations: processDataBlock records exactly one stats entry on every exit path (never a skipped one); recordUnreadBlocks records one non-skipped entry per block; recordBlockStats appends exactly one entry; Stats counts every recorded block exactly once as skipped or processed and returns a copy of the entries.",
            "Per-block sums (RowsScanned/BytesScanned equal the per-block sums) and evaluateBlockFilters' exactly-once accounting are next (DESIGN §7 C23).", "§7 C23"),
})

CLAIMED.update({
    "C10": ("Limit obligation on the ingest actor's step function: whenever processIngestRequest returns having retained the batch's waiter without calling triggerFlush, both buffer-level counters are strictly below MaxBufferedRows and MaxBufferedBytes (so reaching either limit flushes in the same call), for every batch shape and configuration.",
            "The ticker-driven time bound is a timing statement and is not decided; partition-level limits are covered only through the same post-state (DESIGN §7 C10).", "§7 C10"),
    "C24": ("Pruning obligations proved per function: FilterDataBlocks returns only blocks the prefilter admits (each result is one of the inputs and passed TestBlockPrefilter); the file stage dispatches a file only with a non-empty admitted block list and, with bloom conditions, a positive file-filter verdict; evaluateBlockFilters acquires no handle and opens nothing when the query has no bloom/regex conditions; the chunk reader and row-data readers read only inside the extents the metadata declares (readFullAt assertion, validSection/checkExtentWithinFile contracts).",
            "Store read log is ghost (opens/hAcquired counters via extern contracts, assumed). Bloom library Test is an extern (DESIGN §7 C24).", "§7 C24"),
    "C25": ("Constructor and builder semantics proved for every valuation of the leaves: flattenExpressions/flattenPrefilterExpressions/flattenRegexExpressions preserve 'all children true' and 'some child true' of the input list for the flattened operator (inductive loop invariants, unbounded lists), And/Or/PrefilterAnd/PrefilterOr/RegexAnd/RegexOr return a node of the stated operator whose children have that meaning, QueryBuilder.where/addBloomExpression/Build/MatchPrefilter assemble implicit conditions under a single AND and keep the explicit expression.",
            "Evaluation is stated one level deep over an arbitrary valuation of child nodes (the evaluators themselves are under contract in C04/C24); JSON round-trip depends on encoding/json and is not decided by contracts (DESIGN §7 C25).", "§7 C25"),
})

CLAIMED.update({
    "C18": ("Entry-set obligations of the merge path: unionInto proved exact (afterwards the destination's three sets are precisely old ∪ source, nothing else touched; map-iteration loops by inductive invariant over the visited-key set); mergeDataBlocks folds each merged block's sets into the file-level sets exactly once after its last row was indexed; buffer lifetime: a row buffer handed to indexRow (whose retained strings may view it) is never refilled (io.ReadFull/readFullAt/decodeBlockRowDataInto) and never returned to the scan-buffer pool for the rest of the merge (ghost typestate `pinned`) in copyDataBlock, mergeDataBlocks, loadBlockRowData, ReadDataBlockRowData.",
            "indexRow's own body (gjson/tokenizer) is an assumed contract: that every path/token/pair of the row is added is NOT decided; bloom library Add/Test is an assumption; the flush path (handleFlush) and partition IDs / minmax coverage are not yet under C18 contracts (DESIGN §7 C18, §14).", "§7 C18"),
})

CLAIMED.update({
    "C17": ("Layout obligations of both writers, for every number of partitions/blocks, every grouping decision and every outcome of every store call, with no bound: in handleFlush (loop invariant + assertion where the footer is written) and in the merge path (copyDataBlock, mergeDataBlocks, processPartitionBlocks, executeMergeGroup as pre/postconditions carried through five loops) the first block's row data starts at offset 0, each block starts where the previous one ends, the recorded RowDataSize is exactly the number of bytes handed to the output file's writer for that block (ghost.written of the DataStore writer; compression stages, hashers and fan-out writers are proved not to be that writer), earlier records are never touched again, blockFilterRegionWriter.add returns (bytes buffered so far, len(section)) so sections are back to back in block order, finish writes the whole region and rebases every block's section offset exactly once by the region's position, and BlockFilterRegionOffset/Size put the region exactly at the end of the row data. On the read side FileMetadata.validate and ReadFileMetadata are under their C19 framing contracts (a file whose metadata violates this layout is rejected).",
            "Go ints: the layout statements are made for files shorter than 2^63 bytes (flush: stated on the mathematical byte count; merge: ghost flag layoutOvf set exactly when an offset addition leaves the int range). Contiguity of the whole list is the induction over the proved per-step facts (DESIGN §14, on paper). NOT decided: that Rows / UncompressedSize / RowDataHash / BloomEntryCounts equal what the row data contains (only that a copied block keeps Rows and RowDataSize of its source), WriteFileFooter's byte layout beyond what validate/ReadFileMetadata check, codec/JSON/bloom round trips, the public read helpers end to end. io.Writer.Write's contract (a nil error means all of p was accepted) and DataStore.CreateFile handing out the file's writer are extern assumptions.", "§7 C17, §14"),
})

NOT_APPLICABLE = {
    "C14": "snapshot consistency under concurrent flush/merge is an interleaving-only property; no pre/postcondition of a single call expresses it (DESIGN §8)",
    "C15": "crash consistency needs a crash semantics and durability model (crash Hoare logic) the VC generator does not have (DESIGN §8)",
    "C26": "statistical statement about hash behaviour; a contract cannot express a probability; the sizing mechanism it relies on is not under contract either (DESIGN §8)",
}

# properties designed but whose contracts are not yet discharged: listed as not
# applicable *for now* with the honest reason, moved to CLAIMED as they land.
PENDING = {}

ALL = ["C%02d" % i for i in range(1, 28)]

def main():
    checks = []
    for p in ALL:
        if p in CLAIMED:
            text, note, ref = CLAIMED[p]
            checks.append({
                "property_id": p,
                "quick_cmd": "./check %s quick" % p,
                "thorough_cmd": "./check %s thorough" % p,
                "evidence_file": "/verif/evidence/%s.json" % p,
                "replay_cmd_template": "bin/vc replay {path}",
                "engine": "vcgen",
                "level_claimed": {"category": "proof", "text": text, "design_ref": ref},
                "level_note": note,
                "technique": TECH,
            })
    na = []
    for p in ALL:
        if p in NOT_APPLICABLE:
            na.append({"property_id": p, "reason": NOT_APPLICABLE[p]})
        elif p not in CLAIMED:
            na.append({"property_id": p, "reason": PENDING.get(p, "designed (DESIGN §7) but its contracts are not yet discharged by the generator in this commit; not claimed until every obligation passes on the unchanged tree")})
    m = {
        "version": 1,
        "setup_cmd": "./setup.sh",
        "hooks": {
            "guard": "verif",
            "enable": "-tags verif (the only hook is the comment-only file /repo/contracts_verif.go)",
            "baseline_off_cmd": BASE_OFF,
            "source_commits": subprocess.run(["git", "-C", "/repo", "log", "--format=%H", "--", "contracts_verif.go"], capture_output=True, text=True).stdout.split(),
            "add_only": True,
        },
        "engines": [{
            "name": "vcgen",
            "path": "/verif/vcgen",
            "serves_properties": sorted(CLAIMED),
            "kind_free_text": "home-grown VC generator over go/ssa (x/tools v0.50.0, go1.26.8) + z3 5.1.0 / z3 4.8.12 / cvc5 1.0.3 race; contracts as //@ comments in /repo/contracts_verif.go",
        }],
        "checks": checks,
        "not_applicable": na,
        "notes": "exit 0 held / 1 VIOLATION / 2 TOOL-ERROR (never on the unchanged tree). See DESIGN.md.",
    }
    json.dump(m, open("/verif/MANIFEST.json", "w"), indent=1, ensure_ascii=False)
    print("claimed:", sorted(CLAIMED), "n/a:", len(na))

if __name__ == "__main__":
    main()
